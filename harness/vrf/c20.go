package main

import (
	"bytes"
	"crypto/sha256"
	"encoding/hex"
	"fmt"
	"os"
	"os/exec"
	"path/filepath"
	"regexp"
	"sort"
	"strings"
	"sync"
	"sync/atomic"
	"time"
)

func init() { register("C20", checkC20) }

type suRelease struct {
	Ver   int    `json:"ver"`
	Draft bool   `json:"draft"`
	Pre   bool   `json:"pre"`
	Plat  string `json:"plat"`
	Sums  string `json:"sums"`
}

type suOutcome struct {
	Exe    int  `json:"exe"`
	OK     bool `json:"ok"`
	Latest int  `json:"latest"` // version: the release reported (0: none)
}

type suCase struct {
	Cat     []suRelease `json:"cat"`
	Running int         `json:"running"`
	Fault   string      `json:"fault"`
	Cmd     string      `json:"cmd"`
	Allowed suOutcome   `json:"allowed"`
	Why     string      `json:"why"`
}

type suScenario struct {
	Cat     []suRelease
	Running int
	Fault   string
	Cmd     string
	Allowed []suOutcome
	Whys    []string
}

// suTag: version code -> tag (see V / VPre in MC_SelfUpdate: last digit 9 = release, 1 = pre-release rc.1)
func suTag(v int) string {
	b := v / 10
	t := fmt.Sprintf("v%d.%d.%d", b/10000, b/100%100, b%100)
	if v%10 != 9 {
		t += "-rc.1"
	}
	return t
}

func suPayload(v int) []byte {
	return []byte(fmt.Sprintf("#!/bin/sh\necho crs-toolchain %s\n", suTag(v)))
}

// buildVersioned builds the CLI with a given main.version ("" = the default of the source).
func (c *Ctx) buildVersioned(version string) (string, error) {
	out := filepath.Join(c.Scratch, "su-bin-"+strings.ReplaceAll(version, ".", "_"))
	args := []string{"build", "-tags", "verif"}
	if version != "" {
		args = append(args, "-ldflags", "-X main.version="+version)
	}
	args = append(args, "-o", out, ".")
	cmd := exec.Command("go", args...)
	cmd.Dir = c.Repo
	cmd.Env = goEnv()
	if b, err := cmd.CombinedOutput(); err != nil {
		return "", fmt.Errorf("building %s (version %q) failed: %v\n%s", c.Repo, version, err, b)
	}
	return out, nil
}

func suCatalogue(sc *suScenario) FghCatalogue {
	cat := FghCatalogue{}
	switch sc.Fault {
	case "list-500":
		cat.ListFault = "500"
	case "list-reset":
		cat.ListFault = "reset"
	case "list-badjson":
		cat.ListFault = "badjson"
	}
	assetFault, sumsFault := "", ""
	switch sc.Fault {
	case "asset-500":
		assetFault = "500"
	case "asset-reset":
		assetFault = "reset"
	case "asset-truncate":
		assetFault = "truncate"
	case "sums-500":
		sumsFault = "500"
	}
	for _, r := range sc.Cat {
		tag := suTag(r.Ver)
		rel := FghRelease{Tag: tag, Draft: r.Draft, Prerelease: r.Pre}
		name := fmt.Sprintf("crs-toolchain_%s_linux_amd64.tar.gz", strings.TrimPrefix(tag, "v"))
		var content []byte
		switch r.Plat {
		case "good":
			content = fghTarGz("crs-toolchain", suPayload(r.Ver))
		case "tgz":
			name = fmt.Sprintf("crs-toolchain_%s_linux_amd64.tgz", strings.TrimPrefix(tag, "v"))
			content = fghTarGz("crs-toolchain", suPayload(r.Ver))
		case "corrupt":
			content = []byte("this is not a gzip stream " + tag)
		case "badmember":
			content = fghTarGz("something-else", suPayload(r.Ver))
		case "none":
			name = fmt.Sprintf("crs-toolchain_%s_darwin_arm64.tar.gz", strings.TrimPrefix(tag, "v"))
			content = fghTarGz("crs-toolchain", suPayload(r.Ver))
		}
		all := map[string][]byte{}
		switch r.Plat {
		case "otherarch", "archfirst":
			// an archive for the same OS and another architecture, listed first
			oname := fmt.Sprintf("crs-toolchain_%s_linux_arm64.tar.gz", strings.TrimPrefix(tag, "v"))
			ocontent := fghTarGz("crs-toolchain", append(suPayload(r.Ver), []byte("# arm64 build\n")...))
			rel.Assets = append(rel.Assets, FghAsset{Name: oname, Content: ocontent, Fault: assetFault})
			all[oname] = ocontent
			if r.Plat == "archfirst" {
				content = fghTarGz("crs-toolchain", suPayload(r.Ver))
			}
		}
		if r.Plat != "otherarch" {
			rel.Assets = append(rel.Assets, FghAsset{Name: name, Content: content, Fault: assetFault})
			all[name] = content
		}
		var sums []byte
		switch r.Sums {
		case "match":
			sums = fghChecksums(all)
		case "mismatch":
			sums = fghChecksums(map[string][]byte{name: []byte("other bytes")})
		case "otherfile":
			sums = fghChecksums(map[string][]byte{"crs-toolchain_windows_amd64.zip": content})
		case "malformed":
			sums = []byte("not a checksum file\n")
		}
		if r.Sums != "missing" {
			rel.Assets = append(rel.Assets, FghAsset{Name: "crs-toolchain-checksums.txt", Content: sums, Fault: sumsFault})
		}
		cat.Releases = append(cat.Releases, rel)
	}
	return cat
}

func checkC20(c *Ctx) error {
	maxRel, keepMod := "2", uint64(6)
	if c.Tier == "thorough" {
		keepMod = 1
	}
	consts := func(export bool) map[string]string {
		return map[string]string{"NoVerify": "= FALSE", "Catalogues": "<- MCCatalogues", "Runnings": "<- MCRunnings", "Faults": "<- MCFaults", "Cmds": "<- MCCmds",
			"MaxReleases": "= " + maxRel, "Export": "= " + tlaBool(export)}
	}
	var mu sync.Mutex
	scen := map[string]*suScenario{}
	st, err := c.runTLC(TLCRun{Module: "MC_SelfUpdate", Seed: c.Seed, Timeout: 20 * time.Minute, Workers: 8,
		Constants: consts(true), Invs: []string{"Integrity", "Reported", "VersionInert", "ExportCase"}, Props: []string{"OnlyOnce"}}, func(raw []byte) error {
		var sc suCase
		if err := mustJSON(raw, &sc); err != nil {
			return err
		}
		key := jsonStr([]any{sc.Cat, sc.Running, sc.Fault, sc.Cmd})
		mu.Lock()
		s := scen[key]
		if s == nil {
			s = &suScenario{Cat: sc.Cat, Running: sc.Running, Fault: sc.Fault, Cmd: sc.Cmd}
			scen[key] = s
		}
		s.Allowed = append(s.Allowed, sc.Allowed)
		s.Whys = append(s.Whys, sc.Why)
		mu.Unlock()
		return nil
	})
	if err != nil {
		return fmt.Errorf("model of SelfUpdate (spec-level): %v", err)
	}
	keys := make([]string, 0, len(scen))
	for k := range scen {
		if keepMod > 1 && caseHash([]string{k}, c.Seed)%keepMod != 0 {
			continue
		}
		keys = append(keys, k)
	}
	sort.Strings(keys)
	bins := map[int]string{}
	for _, k := range keys {
		v := scen[k].Running
		if _, ok := bins[v]; ok {
			continue
		}
		ver := ""
		if v != 0 {
			ver = suTag(v)
		}
		b, err := c.buildVersioned(ver)
		if err != nil {
			return err
		}
		bins[v] = b
	}
	var runs int64
	parallel(len(keys), 12, func(i int) {
		sc := scen[keys[i]]
		suReplay(c, fmt.Sprintf("su%d", i), sc, bins[sc.Running], &runs)
	})
	for i, k := range keys {
		sc := scen[k]
		if i < 3 {
			c.addSample(map[string]any{"catalogue": sc.Cat, "running": sc.Running, "fault": sc.Fault, "allowed_outcomes": sc.Allowed, "spec_reasons": sc.Whys})
		}
		if len(sc.Cat) >= 1 && (sc.Fault != "none" || sc.Cat[0].Sums != "match" || sc.Cat[0].Plat != "good") {
			c.markNontrivial(hashOf(k))
		}
	}
	c.countEval(len(keys))
	c.Cov["states"] = st.Distinct
	c.Cov["transitions"] = st.Generated
	c.Cov["scenarios_in_model"] = len(scen)
	c.Cov["traces_validated_against_impl"] = len(keys)
	c.Cov["cli_executions"] = runs
	c.Cov["version_lookups_replayed"] = atomic.LoadInt64(&suVersionRuns)
	c.Cov["version_lookups_that_reported_a_release"] = atomic.LoadInt64(&suVersionReports)
	c.Cov["exhaustive"] = keepMod == 1
	c.Cov["rule"] = fmt.Sprintf("TLC explores every scenario (catalogue of 0..%s releases from a pool of 25 release shapes, versions v0.9.0 .. v3.0.0 incl. v2.0.5/v2.0.12/v2.0.13/v2.10.0 x running version {v1.0.0, v2.0.12, pre-release build v2.1.0-rc.1, development build} x 8 fault positions x {self-update, version (release look-up outside CI)}) through the step machine List/Select/Compare/FetchAsset/FetchSums/Verify/Replace and checks Integrity on every state; 1/%d of the scenarios are replayed: the unmodified binary runs against a scripted fake GitHub (CONNECT proxy + TLS with an ad-hoc CA) and its outcome (executable bytes, exit status) must be one the model allows; non-trivial = catalogue not empty and (fault, bad checksum or bad asset)", maxRel, keepMod)
	c.Assumptions = append(c.Assumptions, "the fake release service speaks the subset of the GitHub API that go-selfupdate v1.4.1 uses (release list, browser download URLs, asset API)")
	c.Summary = fmt.Sprintf("states=%d scenarios=%d replayed=%d", st.Distinct, len(scen), len(keys))
	return nil
}

var suVersionRuns, suVersionReports int64

var reLatest = regexp.MustCompile(`(?m)^Latest version is: v?(\d+)\.(\d+)\.(\d+)\s*$`)

// suJudgeVersion: `version' outside CI looks the newest release up and only reports it.
func suJudgeVersion(c *Ctx, sc *suScenario, res CLIResult, exeSame bool, srv *FghServer, dir string) {
	bad := func(why string) {
		c.violation("self-update", map[string]any{"command": "version", "catalogue": sc.Cat, "running": sc.Running, "fault": sc.Fault,
			"allowed_outcomes": sc.Allowed, "spec_reasons": sc.Whys, "why": why,
			"real": map[string]any{"exit": res.Exit, "stdout": res.Stdout, "log": lastLine(res.Stderr)}, "requests": srv.Requests()})
	}
	if !exeSame {
		bad("`version' changed the executable")
		return
	}
	if res.Exit != 0 || res.TimedOut {
		bad(fmt.Sprintf("`version' ended with status %d", res.Exit))
		return
	}
	want := "crs-toolchain " + suTag(sc.Running)
	if sc.Running == 0 {
		want = "crs-toolchain "
	}
	if !strings.HasPrefix(res.Stdout, want) {
		bad("`version' does not print the version of the running executable first")
		return
	}
	for _, rq := range srv.Requests() {
		if strings.Contains(rq, "/assets/") || strings.Contains(rq, "/download/") {
			bad("`version' requested an asset: " + rq)
			return
		}
	}
	if left, _ := filepath.Glob(filepath.Join(dir, ".crs-toolchain*")); len(left) > 0 {
		bad("`version' left files behind")
		return
	}
	latest := 0
	if m := reLatest.FindStringSubmatch(res.Stdout); m != nil {
		var a, b, p int
		fmt.Sscan(m[1], &a)
		fmt.Sscan(m[2], &b)
		fmt.Sscan(m[3], &p)
		latest = (a*10000+b*100+p)*10 + 9
	}
	for _, a := range sc.Allowed {
		if a.Latest == latest {
			atomic.AddInt64(&suVersionRuns, 1)
			if latest != 0 {
				atomic.AddInt64(&suVersionReports, 1)
			}
			return
		}
	}
	bad(fmt.Sprintf("`version' reports release code %d (0 = none), which the model does not allow", latest))
}

func sha(b []byte) string { h := sha256.Sum256(b); return hex.EncodeToString(h[:8]) }

func suReplay(c *Ctx, name string, sc *suScenario, bin string, runs *int64) {
	dir, err := c.newSandbox(name)
	if err != nil {
		return
	}
	defer os.RemoveAll(dir)
	orig, err := os.ReadFile(bin)
	if err != nil {
		return
	}
	exe := filepath.Join(dir, "crs-toolchain")
	if err := os.WriteFile(exe, orig, 0o755); err != nil {
		return
	}
	srv, err := fghStart(dir, suCatalogue(sc))
	if err != nil {
		c.violation("harness", map[string]any{"why": "fake release service did not start: " + err.Error()})
		return
	}
	defer srv.Stop()
	env := srv.Env()
	if sc.Cmd == "version" {
		env = append(env, "CI=false") // the look-up is skipped in CI
	}
	res := c.runBinEnv(exe, dir, "", env, 60*time.Second, sc.Cmd)
	atomic.AddInt64(runs, 1)
	if res.Exit == -2 {
		return // could not be executed: recorded as an infrastructure problem
	}
	now, _ := os.ReadFile(exe)
	if sc.Cmd == "version" {
		suJudgeVersion(c, sc, res, bytes.Equal(now, orig), srv, dir)
		return
	}
	realExe := -1
	if bytes.Equal(now, orig) {
		realExe = 0
	} else {
		for _, r := range sc.Cat {
			if bytes.Equal(now, suPayload(r.Ver)) {
				realExe = r.Ver
			}
		}
	}
	realOK := res.Exit == 0 && !res.TimedOut
	for _, a := range sc.Allowed {
		if a.Exe == realExe && a.OK == realOK {
			return
		}
	}
	leftovers, _ := filepath.Glob(filepath.Join(dir, ".crs-toolchain*"))
	c.violation("self-update", map[string]any{"catalogue": sc.Cat, "running": sc.Running, "fault": sc.Fault,
		"allowed_outcomes": sc.Allowed, "spec_reasons": sc.Whys,
		"real":     map[string]any{"installed_version_code": realExe, "exit": res.Exit, "timed_out": res.TimedOut, "exe_sha_before": sha(orig), "exe_sha_after": sha(now), "log": lastLine(res.Stderr), "leftover_files": leftovers},
		"requests": srv.Requests(),
		"why":      fmt.Sprintf("the binary ended with executable=%d (0 = unchanged, -1 = unknown bytes) exit=%d, which the model does not allow", realExe, res.Exit)})
}
