package main

import (
	"bufio"
	"encoding/json"
	"fmt"
	"os"
	"sort"
	"strings"
	"sync"
	"time"
)

// traceResult is what Trace_AsmShape reports.
type traceResult struct {
	Accepted    bool   `json:"accepted"`
	Consumed    int    `json:"consumed"`
	Total       int    `json:"total"`
	Runs        int    `json:"runs"`
	DirtyEnter  int    `json:"dirty_enter"`
	State       any    `json:"state"`
	Processes   int    `json:"-"`
	RejectedEv  string `json:"-"`
	RejectedSrc string `json:"-"`
}

// readTrace reads one NDJSON trace file and returns the assembler-level events
// (parser events are dropped here) per process, in emission order.
func readTrace(path string) (map[int][]map[string]any, error) {
	f, err := os.Open(path)
	if err != nil {
		return nil, err
	}
	defer f.Close()
	byPid := map[int][]map[string]any{}
	sc := bufio.NewScanner(f)
	sc.Buffer(nil, 1<<26)
	for sc.Scan() {
		var ev map[string]any
		if err := json.Unmarshal(sc.Bytes(), &ev); err != nil {
			return nil, fmt.Errorf("%s: bad trace line: %v", path, err)
		}
		name, _ := ev["ev"].(string)
		if !(strings.HasPrefix(name, "asm.") || strings.HasPrefix(name, "run.") || name == "cmd.word") {
			continue
		}
		pid := int(ev["pid"].(float64))
		byPid[pid] = append(byPid[pid], ev)
	}
	for _, evs := range byPid {
		sort.SliceStable(evs, func(i, j int) bool { return evs[i]["seq"].(float64) < evs[j]["seq"].(float64) })
	}
	return byPid, sc.Err()
}

// validateAsmTraces checks recorded executions against AsmShape with TLC.
// sources[i] describes trace file i (for the report of a rejection).
func (c *Ctx) validateAsmTraces(files []string, sources []string) (*traceResult, error) {
	var nd strings.Builder
	type span struct {
		from, to int
		src      string
	}
	var spans []span
	n, procs := 0, 0
	for i, f := range files {
		byPid, err := readTrace(f)
		if err != nil {
			return nil, err
		}
		pids := make([]int, 0, len(byPid))
		for p := range byPid {
			pids = append(pids, p)
		}
		sort.Ints(pids)
		for _, p := range pids {
			start := n
			nd.WriteString(`{"ev":"proc.reset"}` + "\n")
			n++
			for _, ev := range byPid[p] {
				b, _ := json.Marshal(ev)
				nd.Write(b)
				nd.WriteByte('\n')
				n++
			}
			procs++
			src := f
			if i < len(sources) {
				src = sources[i]
			}
			spans = append(spans, span{start, n, src})
		}
	}
	if n == 0 {
		return &traceResult{Accepted: true}, nil
	}
	res, err := c.runAsmTraceTLC(nd.String())
	if err != nil {
		return nil, err
	}
	if res.Accepted {
		if err := c.asmTraceCanaries(strings.Split(strings.TrimRight(nd.String(), "\n"), "\n")); err != nil {
			return nil, err
		}
	}
	res.Processes = procs
	if !res.Accepted {
		lines := strings.Split(nd.String(), "\n")
		if res.Consumed-1 >= 0 && res.Consumed-1 < len(lines) {
			res.RejectedEv = lines[res.Consumed-1]
		}
		for _, s := range spans {
			if res.Consumed-1 >= s.from && res.Consumed-1 < s.to {
				res.RejectedSrc = s.src
			}
		}
	}
	return res, nil
}

// runAsmTraceTLC validates one concatenated trace with Trace_AsmShape.
func (c *Ctx) runAsmTraceTLC(nd string) (*traceResult, error) {
	var res *traceResult
	_, err := c.runTLC(TLCRun{Module: "Trace_AsmShape", Seed: c.Seed, Timeout: 30 * time.Minute, Workers: 1,
		Invs: []string{"Report"}, ExtraFiles: map[string]string{"trace.ndjson": nd}}, func(raw []byte) error {
		var r traceResult
		if err := mustJSON(raw, &r); err != nil {
			return err
		}
		res = &r
		return nil
	})
	if err != nil {
		return nil, fmt.Errorf("trace validation: %v", err)
	}
	if res == nil {
		return nil, fmt.Errorf("trace validation printed no report")
	}
	return res, nil
}

// asmTraceCanaries guards the acceptor against vacuity: two corruptions of a trace that was just
// accepted - one logged field changed, one event dropped - must be rejected exactly where the
// corruption sits.  An acceptor that lets them pass decides nothing; that is an infrastructure
// problem (exit 2), never a verdict about the code.
func (c *Ctx) asmTraceCanaries(lines []string) error {
	// the first process that has an asm.entry followed by an asm.state
	from, entry, state := -1, -1, -1
	for i, l := range lines {
		switch {
		case strings.Contains(l, `"proc.reset"`):
			if entry >= 0 && state > entry {
				goto found
			}
			from, entry, state = i, -1, -1
		case strings.Contains(l, `"ev":"asm.entry"`) && entry < 0:
			entry = i
		case strings.Contains(l, `"ev":"asm.state"`) && entry >= 0 && state < 0:
			state = i
		}
	}
	if entry < 0 || state < entry {
		return nil // no trace with an entry line: nothing to corrupt
	}
found:
	to := state + 1
	proc := lines[from:to]
	// 1. one field of the asm.state event changed
	var ev map[string]any
	if err := json.Unmarshal([]byte(lines[state]), &ev); err != nil {
		return err
	}
	n, _ := ev["n"].(float64)
	ev["n"] = n + 1
	b, _ := json.Marshal(ev)
	flipped := append(append([]string{}, proc[:len(proc)-1]...), string(b))
	// 2. the asm.entry event dropped
	var dropped []string
	for i, l := range proc {
		if from+i != entry {
			dropped = append(dropped, l)
		}
	}
	for name, tr := range map[string][]string{"field-changed": flipped, "event-dropped": dropped} {
		r, err := c.runAsmTraceTLC(strings.Join(tr, "\n") + "\n")
		if err != nil {
			return err
		}
		if r.Accepted {
			return fmt.Errorf("the trace acceptor accepted a corrupted trace (%s): Direction B would be vacuous", name)
		}
	}
	canaryMu.Lock()
	n0, _ := c.Cov["corrupted_traces_rejected"].(int)
	c.Cov["corrupted_traces_rejected"] = n0 + 2
	canaryMu.Unlock()
	return nil
}

var canaryMu sync.Mutex

// parseFmtTrace accumulates parser and formatter events of recorded executions.
type parseFmtTrace struct {
	kinds  map[string]int  // "kind\x00line" -> occurrences
	orders map[string]int  // order in which the directive patterns were tried for one line -> occurrences
	fmt    strings.Builder // fmt.file / fmt.line events, process after process
	nfmt   int
}

func newParseFmtTrace() *parseFmtTrace {
	return &parseFmtTrace{kinds: map[string]int{}, orders: map[string]int{}}
}

// add reads one NDJSON trace file.
func (t *parseFmtTrace) add(path string) error {
	f, err := os.Open(path)
	if err != nil {
		return nil // the run may have ended before the first event
	}
	defer f.Close()
	type pstate struct {
		tries []string
		fmt   [][]byte
	}
	byPid := map[int]*pstate{}
	var pids []int
	sc := bufio.NewScanner(f)
	sc.Buffer(nil, 1<<26)
	for sc.Scan() {
		var ev map[string]any
		if err := json.Unmarshal(sc.Bytes(), &ev); err != nil {
			return fmt.Errorf("%s: bad trace line: %v", path, err)
		}
		pid := int(ev["pid"].(float64))
		ps := byPid[pid]
		if ps == nil {
			ps = &pstate{}
			byPid[pid] = ps
			pids = append(pids, pid)
		}
		switch ev["ev"] {
		case "parse.try":
			ps.tries = append(ps.tries, ev["name"].(string))
		case "parse.kind":
			line, _ := ev["line"].(string)
			t.kinds[fmt.Sprintf("%d\x00%s", int(ev["kind"].(float64)), line)]++
			if len(ps.tries) == 7 { // a line no pattern claimed shows the complete iteration order
				t.orders[strings.Join(ps.tries, ",")]++
			}
			ps.tries = nil
		case "fmt.file", "fmt.line":
			ps.fmt = append(ps.fmt, append([]byte{}, sc.Bytes()...))
		}
	}
	for _, pid := range pids {
		for _, b := range byPid[pid].fmt {
			t.fmt.Write(b)
			t.fmt.WriteByte('\n')
			t.nfmt++
		}
	}
	return sc.Err()
}

type parseFmtResult struct {
	Accepted bool `json:"accepted"`
	Kinds    int  `json:"kinds"`
	Fmt      int  `json:"fmt"`
	TotalK   int  `json:"total_kinds"`
	TotalF   int  `json:"total_fmt"`
	BadKind  string
	BadFmt   string
}

// validate runs Trace_Parse on what was accumulated.
func (t *parseFmtTrace) validate(c *Ctx) (*parseFmtResult, error) {
	keys := make([]string, 0, len(t.kinds))
	for k := range t.kinds {
		keys = append(keys, k)
	}
	sort.Strings(keys)
	var kd strings.Builder
	var klines []string
	for _, k := range keys {
		parts := strings.SplitN(k, "\x00", 2)
		var kind int
		fmt.Sscanf(parts[0], "%d", &kind)
		b, _ := json.Marshal(map[string]any{"kind": kind, "line": parts[1]})
		kd.Write(b)
		kd.WriteByte('\n')
		klines = append(klines, string(b))
	}
	run := func(kinds, fmtlog string) (*parseFmtResult, error) {
		var res *parseFmtResult
		_, err := c.runTLC(TLCRun{Module: "Trace_Parse", Seed: c.Seed, Timeout: 30 * time.Minute, Workers: 1,
			Constants: map[string]string{"IncludeUnanchored": "= FALSE"}, Invs: []string{"Report"},
			ExtraFiles: map[string]string{"kinds.ndjson": kinds, "fmt.ndjson": fmtlog}}, func(raw []byte) error {
			var r parseFmtResult
			if err := mustJSON(raw, &r); err != nil {
				return err
			}
			res = &r
			return nil
		})
		if err != nil {
			return nil, fmt.Errorf("parser/format trace validation: %v", err)
		}
		if res == nil {
			return nil, fmt.Errorf("parser/format trace validation printed no report")
		}
		return res, nil
	}
	res, err := run(kd.String(), t.fmt.String())
	if err != nil {
		return nil, err
	}
	if res.Accepted {
		// canaries: a recorded kind changed, and a recorded indentation depth changed, must be rejected
		n := 0
		if len(keys) > 0 {
			parts := strings.SplitN(keys[0], "\x00", 2)
			var kind int
			fmt.Sscanf(parts[0], "%d", &kind)
			wrong := 7
			if kind == 7 {
				wrong = 12
			}
			b, _ := json.Marshal(map[string]any{"kind": wrong, "line": parts[1]})
			r, err := run(string(b)+"\n", "")
			if err != nil {
				return nil, err
			}
			if r.Accepted {
				return nil, fmt.Errorf("the parser trace acceptor accepted a corrupted kind: Direction B would be vacuous")
			}
			n++
		}
		for _, l := range strings.Split(t.fmt.String(), "\n") {
			if !strings.Contains(l, `"fmt.line"`) {
				continue
			}
			var ev map[string]any
			if json.Unmarshal([]byte(l), &ev) != nil {
				break
			}
			a, _ := ev["after"].(float64)
			ev["after"] = a + 1
			b, _ := json.Marshal(ev)
			r, err := run("", string(b)+"\n")
			if err != nil {
				return nil, err
			}
			if r.Accepted {
				return nil, fmt.Errorf("the formatter trace acceptor accepted a corrupted depth: Direction B would be vacuous")
			}
			n++
			break
		}
		canaryMu.Lock()
		n0, _ := c.Cov["corrupted_traces_rejected"].(int)
		c.Cov["corrupted_traces_rejected"] = n0 + n
		canaryMu.Unlock()
	}
	if !res.Accepted {
		if res.Kinds <= len(klines) && res.Fmt == 0 && res.Kinds >= 1 {
			res.BadKind = klines[res.Kinds-1]
		} else {
			fl := strings.Split(t.fmt.String(), "\n")
			if res.Fmt >= 1 && res.Fmt <= len(fl) {
				res.BadFmt = fl[res.Fmt-1]
			}
		}
	}
	return res, nil
}

// readCleanPairs extracts the (before, after) texts of the clean-up passes from a trace file.
func readCleanPairs(path string, into map[[2]string]bool) {
	f, err := os.Open(path)
	if err != nil {
		return
	}
	defer f.Close()
	sc := bufio.NewScanner(f)
	sc.Buffer(nil, 1<<26)
	before := map[int]string{}
	for sc.Scan() {
		if !strings.Contains(sc.Text(), `"clean.`) {
			continue
		}
		var ev struct {
			Ev   string `json:"ev"`
			Pid  int    `json:"pid"`
			Text string `json:"text"`
		}
		if json.Unmarshal(sc.Bytes(), &ev) != nil {
			continue
		}
		if ev.Ev == "clean.in" {
			before[ev.Pid] = ev.Text
		} else if ev.Ev == "clean.out" {
			if b, ok := before[ev.Pid]; ok {
				into[[2]string{b, ev.Text}] = true
			}
		}
	}
}

// validateCleanPairs checks recorded clean-up executions against Cleanup!Pipeline.
func (c *Ctx) validateCleanPairs(pairs map[[2]string]bool) (int, string, error) {
	keys := make([][2]string, 0, len(pairs))
	for k := range pairs {
		printable := true
		for _, r := range k[0] + k[1] {
			if r < 32 || r > 126 {
				printable = false
			}
		}
		if printable {
			keys = append(keys, k)
		}
	}
	sort.Slice(keys, func(i, j int) bool { return keys[i][0]+"\x00"+keys[i][1] < keys[j][0]+"\x00"+keys[j][1] })
	if len(keys) == 0 {
		return 0, "", nil
	}
	var nd strings.Builder
	for _, k := range keys {
		b, _ := json.Marshal(map[string]string{"before": k[0], "after": k[1]})
		nd.Write(b)
		nd.WriteByte('\n')
	}
	runPairs := func(text string) (bool, int, error) {
		accepted, consumed := false, 0
		_, err := c.runTLC(TLCRun{Module: "Trace_Cleanup", Seed: c.Seed, Timeout: 30 * time.Minute, Workers: 1,
			Invs: []string{"Report"}, ExtraFiles: map[string]string{"clean.ndjson": text}}, func(raw []byte) error {
			var r struct {
				Accepted bool `json:"accepted"`
				Consumed int  `json:"consumed"`
			}
			if err := mustJSON(raw, &r); err != nil {
				return err
			}
			accepted, consumed = r.Accepted, r.Consumed
			return nil
		})
		if err != nil {
			return false, 0, fmt.Errorf("clean-up trace validation: %v", err)
		}
		return accepted, consumed, nil
	}
	accepted, consumed, err := runPairs(nd.String())
	if err != nil {
		return 0, "", err
	}
	if accepted {
		// canary: one recorded result changed by one character must be rejected
		b, _ := json.Marshal(map[string]string{"before": keys[0][0], "after": keys[0][1] + "x"})
		if acc, _, err := runPairs(string(b) + "\n"); err != nil {
			return 0, "", err
		} else if acc {
			return 0, "", fmt.Errorf("the clean-up trace acceptor accepted a corrupted pair: Direction B would be vacuous")
		}
		canaryMu.Lock()
		n0, _ := c.Cov["corrupted_traces_rejected"].(int)
		c.Cov["corrupted_traces_rejected"] = n0 + 1
		canaryMu.Unlock()
	}
	if !accepted && consumed >= 1 && consumed <= len(keys) {
		return consumed, fmt.Sprintf("before %q after %q", keys[consumed-1][0], keys[consumed-1][1]), nil
	}
	return len(keys), "", nil
}
