package main

import (
	"bufio"
	"encoding/json"
	"fmt"
	"os"
	"sort"
	"strings"
	"time"
)

// traceResult is what Trace_AsmShape reports.
type traceResult struct {
	Accepted    bool   `json:"accepted"`
	Consumed    int    `json:"consumed"`
	Total       int    `json:"total"`
	Runs        int    `json:"runs"`
	DirtyEnter  int    `json:"dirty_enter"`
	State       any    `json:"state"`
	Processes   int    `json:"-"`
	RejectedEv  string `json:"-"`
	RejectedSrc string `json:"-"`
}

// readTrace reads one NDJSON trace file and returns the assembler-level events
// (parser events are dropped here) per process, in emission order.
func readTrace(path string) (map[int][]map[string]any, error) {
	f, err := os.Open(path)
	if err != nil {
		return nil, err
	}
	defer f.Close()
	byPid := map[int][]map[string]any{}
	sc := bufio.NewScanner(f)
	sc.Buffer(nil, 1<<26)
	for sc.Scan() {
		var ev map[string]any
		if err := json.Unmarshal(sc.Bytes(), &ev); err != nil {
			return nil, fmt.Errorf("%s: bad trace line: %v", path, err)
		}
		name, _ := ev["ev"].(string)
		if !(strings.HasPrefix(name, "asm.") || strings.HasPrefix(name, "run.") || name == "cmd.word") {
			continue
		}
		pid := int(ev["pid"].(float64))
		byPid[pid] = append(byPid[pid], ev)
	}
	for _, evs := range byPid {
		sort.SliceStable(evs, func(i, j int) bool { return evs[i]["seq"].(float64) < evs[j]["seq"].(float64) })
	}
	return byPid, sc.Err()
}

// validateAsmTraces checks recorded executions against AsmShape with TLC.
// sources[i] describes trace file i (for the report of a rejection).
func (c *Ctx) validateAsmTraces(files []string, sources []string) (*traceResult, error) {
	var nd strings.Builder
	type span struct {
		from, to int
		src      string
	}
	var spans []span
	n, procs := 0, 0
	for i, f := range files {
		byPid, err := readTrace(f)
		if err != nil {
			return nil, err
		}
		pids := make([]int, 0, len(byPid))
		for p := range byPid {
			pids = append(pids, p)
		}
		sort.Ints(pids)
		for _, p := range pids {
			start := n
			nd.WriteString(`{"ev":"proc.reset"}` + "\n")
			n++
			for _, ev := range byPid[p] {
				b, _ := json.Marshal(ev)
				nd.Write(b)
				nd.WriteByte('\n')
				n++
			}
			procs++
			src := f
			if i < len(sources) {
				src = sources[i]
			}
			spans = append(spans, span{start, n, src})
		}
	}
	if n == 0 {
		return &traceResult{Accepted: true}, nil
	}
	var res *traceResult
	_, err := c.runTLC(TLCRun{Module: "Trace_AsmShape", Seed: c.Seed, Timeout: 30 * time.Minute, Workers: 1,
		Invs: []string{"Report"}, ExtraFiles: map[string]string{"trace.ndjson": nd.String()}}, func(raw []byte) error {
		var r traceResult
		if err := mustJSON(raw, &r); err != nil {
			return err
		}
		res = &r
		return nil
	})
	if err != nil {
		return nil, fmt.Errorf("trace validation: %v", err)
	}
	if res == nil {
		return nil, fmt.Errorf("trace validation printed no report")
	}
	res.Processes = procs
	if !res.Accepted {
		lines := strings.Split(nd.String(), "\n")
		if res.Consumed-1 >= 0 && res.Consumed-1 < len(lines) {
			res.RejectedEv = lines[res.Consumed-1]
		}
		for _, s := range spans {
			if res.Consumed-1 >= s.from && res.Consumed-1 < s.to {
				res.RejectedSrc = s.src
			}
		}
	}
	return res, nil
}
