// vrf is the conformance harness that binds the TLA+ specifications in
// /verif/spec to the crs-toolchain implementation in $VERIF_REPO (default
// /repo).  For every property it runs TLC on the property's model, turns the
// behaviours TLC prints into concrete files and command lines, executes the
// real binary built from the current working tree, and compares what the
// binary did with what the specification allows.
//
// Exit status: 0 property held on everything explored, 1 violation (a line
// "VIOLATION property=<id> replay=<path>" is printed), 2 infrastructure
// problem (never a verdict about the code).
package main

import (
	"encoding/json"
	"flag"
	"fmt"
	"os"
	"sort"
	"strconv"
	"time"
)

type checkFn func(c *Ctx) error

var checks = map[string]checkFn{}

func register(id string, fn checkFn) { checks[id] = fn }

func main() {
	if len(os.Args) < 2 {
		usage()
	}
	switch os.Args[1] {
	case "check":
		os.Exit(cmdCheck(os.Args[2:]))
	case "list":
		ids := []string{}
		for id := range checks {
			ids = append(ids, id)
		}
		sort.Strings(ids)
		for _, id := range ids {
			fmt.Println(id)
		}
	default:
		usage()
	}
}

func usage() {
	fmt.Fprintln(os.Stderr, "usage: vrf check <Cnn> [--tier quick|thorough] [--replay file]")
	os.Exit(2)
}

func cmdCheck(args []string) int {
	if len(args) < 1 {
		usage()
	}
	id := args[0]
	fs := flag.NewFlagSet("check", flag.ExitOnError)
	tier := fs.String("tier", envOr("VERIF_TIER", "quick"), "quick or thorough")
	replay := fs.String("replay", "", "replay file to re-execute")
	keep := fs.Bool("keep", false, "keep scratch directory")
	_ = fs.Parse(args[1:])
	fn, ok := checks[id]
	if !ok {
		fmt.Fprintf(os.Stderr, "unknown property %s\n", id)
		return 2
	}
	if *tier != "quick" && *tier != "thorough" {
		fmt.Fprintf(os.Stderr, "unknown tier %s\n", *tier)
		return 2
	}
	seed := int64(1)
	if s := os.Getenv("VERIF_SEED"); s != "" {
		v, err := strconv.ParseInt(s, 10, 64)
		if err != nil {
			fmt.Fprintf(os.Stderr, "bad VERIF_SEED %q\n", s)
			return 2
		}
		seed = v
	}
	c, err := newCtx(id, *tier, seed, *replay)
	if err != nil {
		fmt.Fprintf(os.Stderr, "INFRA: %v\n", err)
		return 2
	}
	c.Keep = *keep
	defer c.cleanup()
	start := time.Now()
	if *replay != "" {
		return doReplay(c, *replay, fn)
	}
	err = fn(c)
	if err == nil {
		err = c.infraErr
	}
	c.Wall = time.Since(start).Seconds()
	if err != nil {
		fmt.Fprintf(os.Stderr, "INFRA: property=%s %v\n", id, err)
		c.cleanup()
		return 2
	}
	if werr := c.writeEvidence(); werr != nil {
		fmt.Fprintf(os.Stderr, "INFRA: evidence: %v\n", werr)
		c.cleanup()
		return 2
	}
	for _, k := range c.knownPrinted {
		fmt.Println(k)
	}
	if len(c.Violations) > 0 {
		for _, v := range c.Violations {
			fmt.Printf("VIOLATION property=%s replay=%s\n", id, v)
		}
		c.cleanup()
		return 1
	}
	fmt.Printf("OK property=%s tier=%s seed=%d wall=%.1fs %s\n", id, *tier, seed, c.Wall, c.Summary)
	return 0
}

func envOr(k, d string) string {
	if v := os.Getenv(k); v != "" {
		return v
	}
	return d
}

// doReplay re-executes a recorded violation.  Assembly cases are re-run exactly;
// for the other kinds the property's check is run again (the replay file shows the
// concrete input that failed).
func doReplay(c *Ctx, path string, fn checkFn) int {
	b, err := os.ReadFile(path)
	if err != nil {
		fmt.Fprintf(os.Stderr, "INFRA: %v\n", err)
		return 2
	}
	var rec struct {
		Property string         `json:"property"`
		Kind     string         `json:"kind"`
		Detail   map[string]any `json:"detail"`
	}
	if err := json.Unmarshal(b, &rec); err != nil {
		fmt.Fprintf(os.Stderr, "INFRA: %v\n", err)
		return 2
	}
	if rec.Kind == "assembly" {
		again, why, err := replayAssembly(c, rec.Detail)
		if err != nil {
			fmt.Fprintf(os.Stderr, "INFRA: %v\n", err)
			return 2
		}
		for _, k := range c.knownPrinted {
			fmt.Println(k)
		}
		if again {
			fmt.Printf("VIOLATION property=%s replay=%s\n  %s\n", c.ID, path, why)
			return 1
		}
		fmt.Printf("OK property=%s replay=%s not reproduced on the current tree %s\n", c.ID, path, why)
		return 0
	}
	fmt.Fprintf(os.Stderr, "replay of kind %q: running the whole check of %s again; the failing input is in %s\n", rec.Kind, c.ID, path)
	if err := fn(c); err != nil {
		fmt.Fprintf(os.Stderr, "INFRA: %v\n", err)
		return 2
	}
	if len(c.Violations) > 0 {
		for _, v := range c.Violations {
			fmt.Printf("VIOLATION property=%s replay=%s\n", c.ID, v)
		}
		return 1
	}
	fmt.Printf("OK property=%s nothing reproduced\n", c.ID)
	return 0
}
