package main

import (
	"fmt"
	"os"
	"path/filepath"
	"regexp"
	"sort"
	"strings"
	"sync"
	"sync/atomic"
	"time"
)

func init() {
	register("C08", func(c *Ctx) error { return checkToolchain(c, "C08") })
	register("C15", func(c *Ctx) error { return checkToolchain(c, "C15") })
	register("C16", func(c *Ctx) error { return checkToolchain(c, "C16") })
}

// abstract tree of Toolchain.tla
type toolTree struct {
	Src       map[string]string `json:"src"`
	Canon     map[string]bool   `json:"canon"`
	Stored    map[string]string `json:"stored"`
	RulesFile string            `json:"rulesFile"`
	Tests     string            `json:"tests"`
	Marks     string            `json:"marks"`
}

type toolCase struct {
	Pre        toolTree   `json:"pre"`
	Cmd        []any      `json:"cmd"`
	Post       toolTree   `json:"post"`
	Exit       int        `json:"exit"`
	Wrote      [][]string `json:"wrote"`
	Reports    [][]any    `json:"reports"`    // compare in text mode: (rule id, unchanged) per rule file in walk order
	GhError    bool       `json:"gherror"`    // compare --all -o github closes with the ::error:: line
	FmtReports []string   `json:"fmtreports"` // format --check: the files reported as not properly formatted, in walk order
}

var toolFiles = []string{"932100-chain1", "932100", "932110"}

// the pool of assembly programs: text as written by a developer (raw) and its body in canonical layout
var toolSources = map[string][2]string{
	"store":       {"a\n##!=< x\nb\n##!=> x\n", "a\n##!=< x\nb\n##!=> x\n"},
	"loadonly":    {"c\n##!=> x\n", "c\n##!=> x\n"},
	"define":      {"##!>  define v a+\n{{v}}b\n", "##!> define v a+\n{{v}}b\n"},
	"refonly":     {"{{v}}c\n", "{{v}}c\n"},
	"flagsprefix": {"##!+i\n##!^ p\nq\nr\n", "##!+ i\n##!^ p\nq\nr\n"},
	"plain":       {"s\nt\n", "s\nt\n"},
	"unclosed":    {"##!> assemble\nu\n", "##!> assemble\n  u\n"},
	"incl":        {"##!> include words\n", "##!> include words\n"},
	// fault classes of C16
	"missinginc":  {"##!>  include nope\n", "##!> include nope\n"},
	"malformed":   {"a(\n", "a(\n"},
	"unknownproc": {"##!> frobnicate\n", "##!> frobnicate\n"},
	"badcmdline":  {"##!>cmdline vms\nx\n##!<\n", "##!> cmdline vms\n  x\n##!<\n"},
	"strayend":    {"s\n##!<\n", "s\n##!<\n"},
	"badcmdlineU": {"##!> cmdline  Windows\nx\n##!<\n", "##!> cmdline Windows\n  x\n##!<\n"},
	"badflag":     {"##!+ x\ns\n", "##!+ x\ns\n"},
	"oddpairs":    {"##!> include words -- a\n", "##!> include words -- a\n"},
	"inblock":     {"##!> assemble\na(\n##!<\n", "##!> assemble\n  a(\n##!<\n"},
	"ininclude":   {"##!> include bad\n", "##!> include bad\n"},
	"badflagU":    {"##!+ U\ns\n", "##!+ U\ns\n"},
	// a flags line in an include file that has neither prefix nor suffix
	"flaginc": {"##!>  include flagged\n", "##!> include flagged\n"},
	// upper case in a class under flag i: `format --check' objects, everything else accepts it
	"upperi": {"##!+i\n [Ff]oo\n", "##!+ i\n[Ff]oo\n"},
	// the same exclude file applied to two include files that define {{v}} differently
	"exA": {"##!>  include-except incA xshared\n", "##!> include-except incA xshared\n"},
	"exB": {"##!>  include-except incB xshared\n", "##!> include-except incB xshared\n"},
	// the same include file first with a suffix replacement, then plain
	"incpairs": {"##!> include words -- 1 x\n##!=>\n##!> include words\n", "##!> include words -- 1 x\n##!=>\n##!> include words\n"},
}

func toolRaw(s string) string   { return toolSources[s][0] }
func toolCanon(s string) string { return fmtHeader + toolSources[s][1] }

const toolRulesPath = "rules/REQUEST-932-APPLICATION-ATTACK-RCE.conf"
const toolRulesDup = "rules/RESPONSE-932-DUPLICATE.conf"
const toolTestPath = "tests/regression/tests/REQUEST-932-APPLICATION-ATTACK-RCE/932100.yaml"
const toolSetupPath = "crs-setup.conf.example"

type toolEnv struct {
	g map[string]string // source -> generated regex (calibrated on the real code)
}

func (e *toolEnv) operand(f, stored string) (string, bool) {
	switch {
	case stored == "old":
		return "old_" + strings.ReplaceAll(f, "-", "_"), true
	case stored == "norule":
		return "", false
	case strings.HasPrefix(stored, "G:"):
		return e.g[strings.TrimPrefix(stored, "G:")], true
	}
	return "?", true
}

func (e *toolEnv) rulesText(t *toolTree) string {
	var b strings.Builder
	b.WriteString("# rules of the 932 family\n")
	// rule 932100: its own regex (file 932100.ra) and, unless "nochain", one chained rule (file 932100-chain1.ra)
	if op, ok := e.operand("932100", t.Stored["932100"]); ok {
		if t.Stored["932100-chain1"] == "nochain" {
			fmt.Fprintf(&b, "SecRule ARGS \"@rx %s\" \\\n    \"id:932100,\\\n    block\"\n\n", op)
		} else {
			op1, _ := e.operand("932100-chain1", t.Stored["932100-chain1"])
			fmt.Fprintf(&b, "SecRule ARGS \"@rx %s\" \\\n    \"id:932100,\\\n    chain\"\n    SecRule ARGS \"@rx %s\" \\\n        \"t:none\"\n\n", op, op1)
		}
	}
	if op, ok := e.operand("932110", t.Stored["932110"]); ok {
		fmt.Fprintf(&b, "SecRule ARGS \"@rx %s\" \\\n    \"id:932110,\\\n    block\"\n", op)
	}
	return b.String()
}

func (e *toolEnv) concrete(t *toolTree) Tree {
	tr := Tree{
		"crs/regex-assembly/include/words.ra":   fmtHeader + "w1\nw2\n",
		"crs/regex-assembly/include/bad.ra":     fmtHeader + "a(\n",
		"crs/regex-assembly/include/flagged.ra": fmtHeader + "##!+ i\nx\n",
		"crs/regex-assembly/include/incA.ra":    fmtHeader + "##!> define v ka\n{{v}}\nqa\n",
		"crs/regex-assembly/include/incB.ra":    fmtHeader + "##!> define v kb\n{{v}}\nqb\n",
		"crs/regex-assembly/exclude/xshared.ra": fmtHeader + "{{v}}\n",
		"crs/regex-assembly/notes.md":           "##!> assemble\n  not an assembly file\n",
		"crs/regex-assembly/932100.ra.orig":     "   stale  \n",
		// not the assembly file of a rule (and already in canonical layout): sorts between 932100-chain1.ra and 932100.ra
		"crs/regex-assembly/932100-draft.ra":                    fmtHeader + "draft\n",
		"crs/README.md":                                         "# OWASP CRS ver.4.0.0\nSecComponentSignature \"OWASP_CRS/4.0.0\"\n",
		"crs/" + toolSetupPath + ".tmp":                         "SecComponentSignature \"OWASP_CRS/4.0.0\"\n",
		"crs/rules/REQUEST-933-APPLICATION-ATTACK-PHP.conf.tmp": "SecRule ARGS \"@rx keep\" \\\n    \"id:932100,\\\n    ver:'OWASP_CRS/4.0.0'\"\n",
		"crs/regex-assembly/.gitattributes":                     "*.ra text\n",
		filepath.Dir("crs/"+toolTestPath) + "/9321000.yaml":     "tests:\n  - test_id: 4\n  - test_id: 4\n",
		"crs/rules/notes.txt":                                   "id:932100 \"@rx decoy\" \\\n",
		"crs/rules/REQUEST-933-OTHER.conf.bak":                  "SecRule ARGS \"@rx keep\" \\\n    \"id:933100,\\\n    ver:'OWASP_CRS/4.0.0'\"\n",
		"crs/rules/REQUEST-933-APPLICATION-ATTACK-PHP.conf":     "SecRule ARGS \"@rx keep\" \\\n    \"id:933100,\\\n    block\"\n",
		filepath.Dir("crs/"+toolTestPath) + "/932100":           "  - test_id: 5\n",
		filepath.Dir("crs/"+toolTestPath) + "/notes.md":         "  - test_id: 5\n",
		// a parked test file: the only match of the glob 932110.*, and not a fix point of the renumberer
		filepath.Dir("crs/"+toolTestPath) + "/932110.yaml.disabled": "tests:\n  - test_id: 4\n  - test_id: 4\n\n\n",
		"crs/tests/regression/README.yaml.txt":                      "test_id: 3\n",
		"outside/keep.conf":                                         "SecComponentSignature \"OWASP_CRS/4.0.0\"\n",
		"outside/932100.ra":                                         "   outside  \n",
		"crs/" + toolSetupPath:                                      "# setup\nSecComponentSignature \"OWASP_CRS/" + t.Marks + "\"\n",
	}
	for _, f := range toolFiles {
		s := t.Src[f]
		if s == "none" {
			continue
		}
		if t.Canon[f] {
			tr["crs/regex-assembly/"+f+".ra"] = toolCanon(s)
		} else {
			tr["crs/regex-assembly/"+f+".ra"] = toolRaw(s)
		}
	}
	if t.RulesFile != "none" {
		tr["crs/"+toolRulesPath] = e.rulesText(t)
	}
	if t.RulesFile == "two" {
		tr["crs/"+toolRulesDup] = e.rulesText(t)
	}
	if t.Tests == "numbered" {
		tr["crs/"+toolTestPath] = "tests:\n  - test_id: 1\n  - test_id: 2\n"
	} else {
		tr["crs/"+toolTestPath] = "tests:\n  - test_id: 7\n  - test_id: 7\n"
	}
	return tr
}

func toolArgs(cmd []any) []string {
	name := cmd[0].(string)
	str := func(i int) string { s, _ := cmd[i].(string); return s }
	gh := func(i int) []string {
		if b, _ := cmd[i].(bool); b {
			return []string{"-o", "github"}
		}
		return nil
	}
	switch name {
	case "generate":
		return []string{"regex", "generate", str(1)}
	case "compare":
		return append(gh(2), "regex", "compare", str(1))
	case "compare-all":
		return append(gh(1), "regex", "compare", "--all")
	case "format-check":
		return []string{"regex", "format", "--check", str(1)}
	case "format-check-all":
		return []string{"regex", "format", "--check", "--all"}
	case "renumber-check":
		return []string{"util", "renumber-tests", "--check", "--all"}
	case "version":
		return []string{"version"}
	case "completion":
		return []string{"completion", str(1)}
	case "update":
		return []string{"regex", "update", str(1)}
	case "update-all":
		return []string{"regex", "update", "--all"}
	case "format":
		return []string{"regex", "format", str(1)}
	case "format-all":
		return []string{"regex", "format", "--all"}
	case "renumber":
		return []string{"util", "renumber-tests", "--all"}
	case "renumber-one":
		if b, _ := cmd[3].(bool); b {
			return []string{"util", "renumber-tests", "--check", str(1)}
		}
		return []string{"util", "renumber-tests", str(1)}
	case "copyright":
		return []string{"chore", "update-copyright", "-v", str(1), "-y", "2024"}
	}
	return nil
}

var reCompareVerdict = regexp.MustCompile(`(?m)^Regex of (\d+) (has not changed|has changed!)$`)
var reRegexLine = regexp.MustCompile(`^[^\s]+$`)

func checkToolchain(c *Ctx, prop string) error {
	quota := 2400
	if c.Tier == "thorough" {
		quota = 20000
	}
	// calibration: the regex of every compiling source, and the canonical layouts of the pool
	env := &toolEnv{g: map[string]string{}}
	cal, err := c.newSandbox("cal")
	if err != nil {
		return err
	}
	writeTree(cal, Tree{"regex-assembly/include/words.ra": fmtHeader + "w1\nw2\n", "regex-assembly/include/bad.ra": fmtHeader + "a(\n", "regex-assembly/include/flagged.ra": fmtHeader + "##!+ i\nx\n",
		"regex-assembly/include/incA.ra": fmtHeader + "##!> define v ka\n{{v}}\nqa\n", "regex-assembly/include/incB.ra": fmtHeader + "##!> define v kb\n{{v}}\nqb\n",
		"regex-assembly/exclude/xshared.ra": fmtHeader + "{{v}}\n"})
	for _, s := range []string{"store", "define", "refonly", "flagsprefix", "plain", "incl", "exA", "exB", "incpairs", "upperi"} {
		r := c.runCLI(cal, toolRaw(s), "-d", cal, "regex", "generate", "-")
		if r.Exit != 0 || r.Stdout == "" {
			c.violation("toolchain", map[string]any{"why": "a well-formed program of the pool does not compile on its own", "program": toolRaw(s), "stderr": lastLine(r.Stderr)})
			return nil
		}
		env.g[s] = r.Stdout
	}
	if prop == "C08" {
		// design level: one compilation as an operational state machine (Assembly.tla), several runs in
		// ONE process.  The shape machine that validates the recorded executions below accepts every
		// execution of the design and tracks the abstraction of its state, the stack is never empty
		// while lines are consumed and the stash only grows.
		ml := "3"
		if c.Tier == "thorough" {
			ml = "4"
		}
		as, err := c.runTLC(TLCRun{Module: "MC_Assembly", Seed: c.Seed, Timeout: 30 * time.Minute, Workers: 8,
			Constants: map[string]string{"Sigma": "<- MCSigma", "N": "= 2", "LeafD": "<- MCLeafD", "Deviations": "<- MCDev", "Cfg": "<- MCCfg",
				"Schedules": "<- MCSchedules", "StashNames": "<- MCNames", "MaxLines": "= " + ml},
			Invs: []string{"AcceptorComplete", "AcceptorTracks", "DepthOK"}, Props: []string{"StashGrows"}}, nil)
		if err != nil {
			return fmt.Errorf("model of Assembly (spec-level): %v", err)
		}
		c.Cov["assembly_model_states"] = as.Distinct
	}
	var mu sync.Mutex
	var cases []toolCase
	var enumerated int64
	want := func(tc *toolCase) bool {
		name := tc.Cmd[0].(string)
		switch prop {
		case "C08":
			return strings.HasSuffix(name, "-all") || name == "update" || name == "format" || name == "compare"
		case "C16":
			return tc.Exit == 1 || name == "generate"
		}
		return true
	}
	st, err := c.runTLC(TLCRun{Module: "MC_Toolchain", Seed: c.Seed, Timeout: 30 * time.Minute,
		Constants: map[string]string{"Files": "<- MCFiles", "Sources": "<- MCSources", "Compiles": "<- MCCompiles", "Formats": "<- MCFormats", "Lints": "<- MCLints", "FmtAborts": "<- MCFmtAborts", "Export": "= TRUE", "MaxEdits": "= 1", "Full": "= " + tlaBool(c.Tier == "thorough")},
		Invs:      []string{"FrameOK", "LoudOK", "RoundTripOK", "AllIsSingles", "ExportCase"}}, func(raw []byte) error {
		n := atomic.AddInt64(&enumerated, 1)
		// cheap pre-filter by hash before decoding
		if caseHash([]string{string(raw)}, c.Seed)%16 != 0 && n > 2000 {
			return nil
		}
		var tc toolCase
		if err := mustJSON(raw, &tc); err != nil {
			return err
		}
		if !want(&tc) {
			return nil
		}
		mu.Lock()
		cases = append(cases, tc)
		mu.Unlock()
		return nil
	})
	if err != nil {
		return fmt.Errorf("model of Toolchain (spec-level): %v", err)
	}
	sort.Slice(cases, func(i, j int) bool { return jsonStr(cases[i]) < jsonStr(cases[j]) })
	if len(cases) > quota {
		// keep a deterministic sample, stratified by command, expected exit status and whether the
		// model says something is written (rare classes - e.g. compare --all that succeeds - get
		// the same share as frequent ones)
		byCmd := map[string][]toolCase{}
		for _, tc := range cases {
			k := fmt.Sprintf("%v exit=%d writes=%v", tc.Cmd[0], tc.Exit, len(tc.Wrote) > 0)
			if b, ok := tc.Cmd[len(tc.Cmd)-1].(bool); ok {
				k += fmt.Sprintf(" %v", b) // github mode / --check
			}
			if strings.HasSuffix(fmt.Sprint(tc.Cmd[0]), "-all") {
				// what an --all run does depends on WHICH programs the files hold, in walk order
				k += " " + jsonStr(tc.Pre.Src)
			}
			byCmd[k] = append(byCmd[k], tc)
		}
		var keep []toolCase
		// half of the budget for the single-target commands, half for the --all commands
		nAll := 0
		for k := range byCmd {
			if strings.Contains(strings.SplitN(k, " ", 2)[0], "-all") {
				nAll++
			}
		}
		perAll, perOne := quota/2/(nAll+1)+1, quota/2/(len(byCmd)-nAll+1)+1
		for k, l := range byCmd {
			per := perOne
			if strings.Contains(strings.SplitN(k, " ", 2)[0], "-all") {
				per = perAll
			}
			step := len(l)/per + 1
			off := int(c.Seed) % step
			for i := off; i < len(l); i += step {
				keep = append(keep, l[i])
			}
		}
		cases = keep
	}
	var cli int64
	parallel(len(cases), 16, func(i int) { toolReplay(c, env, fmt.Sprintf("tl%d", i), &cases[i], &cli) })
	if prop == "C08" {
		if err := toolSameProcess(c, env, cal); err != nil {
			return err
		}
		if err := validateSuiteTraces(c); err != nil {
			return err
		}
	}
	perCmd := map[string]int{}
	for i := range cases {
		tc := &cases[i]
		perCmd[tc.Cmd[0].(string)]++
		if i%(len(cases)/4+1) == 0 {
			c.addSample(map[string]any{"tree_before": tc.Pre, "command": tc.Cmd, "spec_exit": tc.Exit, "spec_writes": tc.Wrote, "tree_after": tc.Post})
		}
		nt := false
		switch prop {
		case "C08":
			n := 0
			for _, f := range toolFiles {
				if tc.Pre.Src[f] != "none" {
					n++
				}
			}
			nt = n >= 2 && strings.HasSuffix(tc.Cmd[0].(string), "-all")
		case "C15":
			nt = true
		case "C16":
			nt = tc.Exit == 1
		}
		if nt {
			c.markNontrivial(hashOf(tc))
		}
	}
	if prop == "C16" {
		c.Level = "fault_enumeration"
	}
	c.countEval(len(cases))
	c.Cov["states"] = st.Distinct
	c.Cov["transitions"] = st.Generated
	c.Cov["transitions_in_model"] = enumerated
	c.Cov["traces_validated_against_impl"] = len(cases)
	c.Cov["per_command"] = perCmd
	c.Cov["cli_executions"] = cli
	c.Cov["exhaustive"] = false
	c.Cov["rule"] = "TLC explores every transition (tree before, command, tree after, exit, components written) of Toolchain.tla from 162 (quick) / 414 (thorough) initial trees (9 / 23 assignments of 23 program shapes incl. one per fault class of C16 at top level / in a block / in an include to 3 assembly files - shared stash names, definitions, flags/prefix only in one file, include-only, a failing file in the middle, a chain offset - x formatted or not x rule present or missing x one / no / two rules files) closed under one environment edit, for 21 commands incl. version, completion and the single-target renumber-tests (test file, parked look-alike, no match; with and without --check), every --all variant and github mode, and checks FrameOK, LoudOK, RoundTripOK and AllIsSingles on each; a stratified sample of the transitions is executed on a concrete tree with decoy files (other extensions, look-alike names, nested directories, a sibling directory outside the root): exit status, abstract tree after (read back from the bytes) and the set of changed paths must be what the model says. " +
		map[string]string{"C08": "C08 sample: --all commands and the single commands they must equal; non-trivial = an --all command on a tree with >= 2 assembly files.",
			"C15": "C15 sample: all commands; every transition is non-trivial (the whole tree incl. decoys is snapshotted).",
			"C16": "C16 sample: transitions the model ends with exit 1 and every generate; non-trivial = the model says the command must fail."}[prop]
	c.Summary = fmt.Sprintf("model_transitions=%d replayed=%d cli=%d", enumerated, len(cases), cli)
	return nil
}

func toolReplay(c *Ctx, env *toolEnv, name string, tc *toolCase, cli *int64) {
	sb, err := c.newSandbox(name)
	if err != nil {
		return
	}
	defer os.RemoveAll(sb)
	// every other tree lives below a directory whose NAME merely starts with regex-assembly
	base := sb
	if caseHash([]string{jsonStr(tc.Pre), jsonStr(tc.Cmd)}, c.Seed)%2 == 0 {
		base = filepath.Join(sb, "regex-assembly-sandbox")
	}
	tr := env.concrete(&tc.Pre)
	if err := writeTree(base, tr); err != nil {
		return
	}
	root := filepath.Join(base, "crs")
	before, _ := snapshot(base)
	args := append([]string{"-d", root}, toolArgs(tc.Cmd)...)
	// the log level is not part of the model: whatever it is, exit status, tree and what generate
	// prints on stdout are the same (every 3rd case runs at another level than the default)
	levels := []string{"", "", "trace", "debug", "error", "disabled"}
	if lv := levels[caseHash([]string{jsonStr(tc.Pre), jsonStr(tc.Cmd)}, c.Seed+7)%uint64(len(levels))]; lv != "" {
		args = append([]string{"-l", lv}, args...)
	}
	r := c.runCLI(base, "", args...)
	atomic.AddInt64(cli, 1)
	after, _ := snapshot(base)
	bad := func(why string, extra map[string]any) {
		d := map[string]any{"tree_before": tc.Pre, "command": tc.Cmd, "spec_exit": tc.Exit, "spec_writes": tc.Wrote, "spec_tree_after": tc.Post,
			"real_exit": r.Exit, "real_stdout": firstLine(r.Stdout), "real_stderr": lastLine(r.Stderr), "why": why}
		for k, v := range extra {
			d[k] = v
		}
		c.violation("toolchain", d)
	}
	// exit status
	if (tc.Exit != 2 && (r.Exit == 0) != (tc.Exit == 0)) || r.TimedOut { // 2: the model leaves the status open
		bad(fmt.Sprintf("exit status %d, the model says %d", r.Exit, tc.Exit), nil)
	}
	if tc.Cmd[0] == "generate" {
		if tc.Exit == 1 && r.Stdout != "" {
			bad("generate fails but prints a regex", nil)
		}
		if tc.Exit == 0 && r.Stdout != env.g[tc.Pre.Src[tc.Cmd[1].(string)]] {
			bad("generate prints a different regex than for the same program on its own", nil)
		}
	}
	// compare in text mode: the verdicts printed, in order (Toolchain!Reports)
	if name, _ := tc.Cmd[0].(string); name == "compare-all" || name == "compare" {
		var got []string
		for _, m := range reCompareVerdict.FindAllStringSubmatch(r.Stdout, -1) {
			got = append(got, m[1]+" "+m[2])
		}
		var want []string
		for _, rp := range tc.Reports {
			v := "has changed!"
			if same, _ := rp[1].(bool); same {
				v = "has not changed"
			}
			want = append(want, fmt.Sprint(rp[0])+" "+v)
		}
		if len(got) == 0 && len(want) > 0 && strings.Contains(r.Stdout, "9321") {
			// a rule is mentioned, but not in a form this harness reads: the wording is no property
			c.infra(fmt.Errorf("compare prints %q: the verdict lines are not recognised (wording changed?)", firstLine(r.Stdout)))
		} else if strings.Join(got, "; ") != strings.Join(want, "; ") {
			bad(fmt.Sprintf("compare reports [%s], the model says [%s]", strings.Join(got, "; "), strings.Join(want, "; ")), nil)
		}
		if tc.Cmd[len(tc.Cmd)-1] == false && len(got) > 0 {
			changed := 0
			for _, g := range got {
				if strings.HasSuffix(g, "has changed!") {
					changed++
				}
			}
			if n := strings.Count(r.Stdout, "first difference"); n != changed {
				bad(fmt.Sprintf("compare reports %d changed rules but shows %d difference reports (each changed rule has its own, as in the single-rule command)", changed, n), nil)
			}
		}
		if strings.Contains(r.Stdout, "::error::All rules need to be up to date") != tc.GhError {
			bad(fmt.Sprintf("the closing ::error:: line of compare --all -o github: printed=%v, the model says %v", !tc.GhError, tc.GhError), nil)
		}
	}
	// format --check: the files reported, in walk order (Toolchain!FmtReports)
	if name, _ := tc.Cmd[0].(string); name == "format-check-all" || name == "format-check" {
		var got, want []string
		for _, m := range reNotFormattedAny.FindAllStringSubmatch(r.Stdout, -1) {
			got = append(got, m[1])
		}
		for _, f := range tc.FmtReports {
			want = append(want, f+".ra")
		}
		if len(got) == 0 && len(want) > 0 && strings.Contains(r.Stdout, "9321") {
			// a file is mentioned, but not in a form this harness reads: the wording is no property
			c.infra(fmt.Errorf("format --check prints %q: the report lines are not recognised (wording changed?)", firstLine(r.Stdout)))
		} else if strings.Join(got, ",") != strings.Join(want, ",") {
			bad(fmt.Sprintf("format --check reports [%s] as not properly formatted, the model says [%s]", strings.Join(got, ","), strings.Join(want, ",")), nil)
		}
	}
	// the changed paths must be exactly the components the model says were written
	allowed := map[string]bool{}
	for _, w := range tc.Wrote {
		switch w[0] {
		case "rules":
			allowed["changed:crs/"+toolRulesPath] = true
		case "ra":
			allowed["changed:crs/regex-assembly/"+w[1]+".ra"] = true
		case "tests":
			allowed["changed:crs/"+toolTestPath] = true
		case "marks":
			allowed["changed:crs/"+toolSetupPath] = true
		}
	}
	diff := diffTrees(before, after)
	for _, d := range diff {
		if !allowed[d] {
			bad("a path changed that the command must not touch: "+d, map[string]any{"diff": diff, "now": after[strings.SplitN(d, ":", 2)[1]]})
			return
		}
	}
	for a := range allowed {
		found := false
		for _, d := range diff {
			found = found || d == a
		}
		if !found {
			bad("the model says "+a+" but the path did not change", map[string]any{"diff": diff})
			return
		}
	}
	// the tree after, read back from the bytes
	want := env.concrete(&tc.Post)
	for p, content := range want {
		if after[p] != content {
			bad("content of "+p+" differs from the model's tree after the command", map[string]any{"real": after[p], "spec": content})
			return
		}
	}
}

// toolSameProcess is Direction B for C08: many compilations in ONE process (what --all does),
// in several orders, failing programs in between.  Every result must equal the result of the
// same program in a fresh process, and the recorded execution must be a behaviour of AsmShape
// (in particular: whatever a failed run left on the package-level stack, the next run starts
// from a single root frame).
func toolSameProcess(c *Ctx, env *toolEnv, root string) error {
	pool, err := c.newInprocPool()
	if err != nil {
		return err
	}
	trace := filepath.Join(c.Scratch, "sameproc.ndjson")
	w := &inprocWorker{bin: pool.bin, env: []string{"CRS_VERIF_TRACE=" + trace}}
	defer w.stop()
	names := make([]string, 0, len(toolSources))
	for s := range toolSources {
		names = append(names, s)
	}
	sort.Strings(names)
	rounds := 6
	if c.Tier == "thorough" {
		rounds = 40
	}
	runs := 0
	for r := 0; r < rounds; r++ {
		// a different order every round (seeded)
		order := append([]string{}, names...)
		sort.Slice(order, func(i, j int) bool {
			return caseHash([]string{order[i], fmt.Sprint(r)}, c.Seed) < caseHash([]string{order[j], fmt.Sprint(r)}, c.Seed)
		})
		for _, s := range order {
			rep, err := w.run(root, toolRaw(s))
			if err != nil {
				return err
			}
			runs++
			if rep.Died {
				continue // the program ends the process (fatal log): the next request starts a new one
			}
			want, compiles := env.g[s]
			got := rep.Out
			if rep.Err != "" || rep.Panic != "" {
				got = ""
			}
			if compiles && got != want {
				c.violation("toolchain", map[string]any{"why": "a program compiled after others in the same process gives a different result than in a fresh process",
					"program": toolRaw(s), "fresh_process": want, "same_process": got, "error": rep.Err + rep.Panic, "order": order})
				return nil
			}
			if !compiles && rep.Err == "" && rep.Panic == "" {
				c.violation("toolchain", map[string]any{"why": "a program that fails in a fresh process compiles after others in the same process",
					"program": toolRaw(s), "same_process": got, "order": order})
				return nil
			}
		}
	}
	w.stop()
	tr, err := c.validateAsmTraces([]string{trace}, []string{"same-process driver"})
	os.Remove(trace)
	if err != nil {
		return err
	}
	c.Cov["same_process_runs"] = runs
	c.Cov["recorded_traces_validated"] = tr.Processes
	c.Cov["recorded_events_validated"] = tr.Consumed
	c.Cov["runs_entered_with_leftover_stack"] = tr.DirtyEnter
	if !tr.Accepted {
		c.violation("trace", map[string]any{"why": "the recorded execution of several compilations in one process is not a behaviour of AsmShape",
			"rejected_event": tr.RejectedEv, "event_index": tr.Consumed, "spec_state": tr.State})
	}
	return nil
}
