package main

import (
	"fmt"
	"os"
	"path/filepath"
	"regexp"
	"sort"
	"strings"
	"sync"
	"sync/atomic"
	"time"
)

func init() {
	register("C09", func(c *Ctx) error { return checkFormat(c, false) })
	register("C10", func(c *Ctx) error { return checkFormat(c, true) })
}

// FmtCase is one file exported by MC_Format with the spec's expectation.
type FmtCase struct {
	Raw   string   `json:"raw"`
	Err   string   `json:"err"`   // "" / "unbalanced" / "flag"
	Out   string   `json:"out"`   // Bytes(Fmt(file))
	Check bool     `json:"check"` // --check must succeed
	Lint  bool     `json:"lint"`
	Kinds []string `json:"kinds"`
}

const fmtHeader = "##! Please refer to the documentation at\n##! https://coreruleset.org/docs/development/regex_assembly/.\n\n"

// include files the vocabulary of MC_Format refers to; already canonical
var fmtIncludes = Tree{
	"regex-assembly/include/f.ra":          fmtHeader + "inc1\ninc2\n",
	"regex-assembly/include/g.ra":          fmtHeader + "incg\n",
	"regex-assembly/include/looks-like.ra": fmtHeader + "looks\n",
	"regex-assembly/exclude/x.ra":          fmtHeader + "inc1\n",
	"regex-assembly/exclude/x1.ra":         fmtHeader + "inc2\n",
	"regex-assembly/exclude/x2.ra":         fmtHeader + "zzz\n",
}

var reNotFormatted = regexp.MustCompile(`(?m)^(\S+\.ra) not properly formatted$`)

func checkFormat(c *Ctx, meaning bool) error {
	lines, thLines, keepMod := 3, 2, uint64(3)
	simNum, simDepth := 8, 8
	if c.Tier == "thorough" {
		lines, thLines, keepMod = 4, 3, 20
		simNum, simDepth = 60, 10
	}
	consts := func(n int, export, theorem bool) map[string]string {
		return map[string]string{"MaxLines": fmt.Sprintf("= %d", n), "Export": "= " + tlaBool(export), "Theorem": "= " + tlaBool(theorem)}
	}
	th, err := c.runTLC(TLCRun{Module: "MC_Format", Seed: c.Seed, Timeout: 30 * time.Minute,
		Constants: consts(thLines, false, true), Invs: []string{"Theorems"}}, nil)
	if err != nil {
		return fmt.Errorf("design theorems of Format (spec-level, says nothing about the code): %v", err)
	}
	var mu sync.Mutex
	seen := map[string]bool{}
	var cases []FmtCase
	var enumerated int64
	collect := func(mod uint64) func(raw []byte) error {
		return func(raw []byte) error {
			var fc FmtCase
			if err := mustJSON(raw, &fc); err != nil {
				return err
			}
			atomic.AddInt64(&enumerated, 1)
			if mod > 1 && caseHash([]string{fc.Raw}, c.Seed)%mod != 0 {
				return nil
			}
			mu.Lock()
			if !seen[fc.Raw] {
				seen[fc.Raw] = true
				cases = append(cases, fc)
			}
			mu.Unlock()
			return nil
		}
	}
	ex, err := c.runTLC(TLCRun{Module: "MC_Format", Seed: c.Seed, Timeout: 30 * time.Minute,
		Constants: consts(lines, true, false), Invs: []string{"ExportCase"}}, collect(keepMod))
	if err != nil {
		return err
	}
	// longer files: random behaviours of the same model
	sim, err := c.runTLC(TLCRun{Module: "MC_Format", Seed: c.Seed, Timeout: 30 * time.Minute, Workers: 4,
		Simulate: fmt.Sprintf("num=%d", simNum), Depth: simDepth,
		Constants: consts(simDepth+2, true, false), Invs: []string{"ExportCase"}}, collect(1))
	if err != nil {
		return err
	}
	_ = sim
	sort.Slice(cases, func(i, j int) bool { return cases[i].Raw < cases[j].Raw })

	var pool *inprocPool
	if meaning {
		if pool, err = c.newInprocPool(); err != nil {
			return err
		}
		defer pool.close()
	}
	// batches of files formatted together with --all; failing (error) cases alone
	var normal, failing []FmtCase
	for _, fc := range cases {
		if fc.Err == "" {
			normal = append(normal, fc)
		} else {
			failing = append(failing, fc)
		}
	}
	const batch = 120
	nb := (len(normal) + batch - 1) / batch
	var firstErr error
	var emu sync.Mutex
	setErr := func(e error) {
		emu.Lock()
		if firstErr == nil {
			firstErr = e
		}
		emu.Unlock()
	}
	var cli int64
	traceDir := filepath.Join(c.Scratch, "fmttraces")
	os.MkdirAll(traceDir, 0o755)
	traced := 12
	if c.Tier == "thorough" {
		traced = 60
	}
	parallel(nb, 16, func(b int) {
		lo, hi := b*batch, (b+1)*batch
		if hi > len(normal) {
			hi = len(normal)
		}
		tf := ""
		if b%(nb/traced+1) == 0 {
			tf = filepath.Join(traceDir, fmt.Sprintf("b%d.ndjson", b))
		}
		if e := fmtBatch(c, pool, fmt.Sprintf("fb%d", b), normal[lo:hi], meaning, &cli, tf); e != nil {
			setErr(e)
		}
	})
	// Direction B: the formatter's recorded indentation bookkeeping and the parser's recorded
	// line kinds for the traced batches
	pft := newParseFmtTrace()
	tfiles, _ := filepath.Glob(filepath.Join(traceDir, "*.ndjson"))
	for _, f := range tfiles {
		if err := pft.add(f); err != nil {
			return err
		}
	}
	os.RemoveAll(traceDir)
	if pft.nfmt > 0 {
		pres, err := pft.validate(c)
		if err != nil {
			return err
		}
		if !pres.Accepted {
			c.violation("trace", map[string]any{"why": "a recorded format run is not a behaviour of the specification (indentation bookkeeping of Format, line kinds of Classify)",
				"bad_kind_record": pres.BadKind, "bad_fmt_event": pres.BadFmt})
		}
		c.Cov["recorded_fmt_events_validated"] = pres.TotalF
		c.Cov["recorded_line_kinds_validated"] = pres.TotalK
	}
	// mixed --all runs (Toolchain!FormatFold): files that cannot be formatted (unbalanced end marker:
	// reported, left as they are, the run goes on) FIRST in walk order, files that are not .ra files
	// in between, then files the spec formats.  Every file must end up exactly as if it had been
	// formatted alone.
	var unbalanced []FmtCase
	for _, fc := range failing {
		// (a file that also has a flags line may end the whole process before the marker is seen)
		if fc.Err == "unbalanced" && !strings.Contains(fc.Raw, "##!+") {
			unbalanced = append(unbalanced, fc)
		}
	}
	mixed := 8
	if c.Tier == "thorough" {
		mixed = 60
	}
	if len(unbalanced) > 0 && len(normal) > 0 {
		parallel(mixed, 8, func(b int) {
			if e := fmtMixed(c, fmt.Sprintf("fm%d", b), b, unbalanced, normal, &cli); e != nil {
				setErr(e)
			}
		})
		c.Cov["mixed_all_runs"] = mixed
	}
	// every k-th normal case additionally through the single-file command
	step := len(normal)/150 + 1
	var singles []FmtCase
	for i := 0; i < len(normal); i += step {
		singles = append(singles, normal[i])
	}
	// failing files (unbalanced end marker, unsupported flag) can only be run alone
	fstep := len(failing)/250 + 1
	for i := 0; i < len(failing); i += fstep {
		singles = append(singles, failing[i])
	}
	parallel(len(singles), 16, func(i int) {
		if e := fmtSingle(c, pool, fmt.Sprintf("fs%d", i), singles[i], meaning, &cli); e != nil {
			setErr(e)
		}
	})
	if firstErr != nil {
		return firstErr
	}
	for i, fc := range cases {
		if i < 3 {
			c.addSample(map[string]any{"file": fc.Raw, "spec_formatted": fc.Out, "spec_error": fc.Err, "check_must_pass": fc.Check})
		}
		nt := fc.Raw != fc.Out || fc.Err != "" || len(fc.Raw) == 0
		if meaning {
			nt = len(fc.Kinds) >= 2
		}
		if nt {
			c.markNontrivial(hashOf(fc.Raw))
		}
	}
	c.countEval(len(cases))
	c.Cov["states"] = th.Distinct + ex.Distinct
	c.Cov["transitions"] = th.Generated + ex.Generated
	c.Cov["theorem_states"] = th.Distinct
	c.Cov["files_enumerated"] = enumerated
	c.Cov["traces_validated_against_impl"] = len(cases)
	c.Cov["cli_executions"] = cli
	c.Cov["exhaustive"] = false
	if meaning {
		c.Cov["rule"] = fmt.Sprintf("files of MC_Format (all files of <= %d lines over 42 line shapes, 1/%d sampled, plus %d random files of up to %d lines); each is formatted by the real command and must equal Bytes(Fmt(file)) of the spec, for which TLC proves that only white space changed (MeaningKept); `regex generate` on the bytes before and after formatting must print the same regex or fail alike; non-trivial = at least two different line kinds", lines, keepMod, simNum, simDepth)
	} else {
		c.Cov["rule"] = fmt.Sprintf("files of MC_Format (all files of <= %d lines over 42 line shapes, 1/%d sampled, plus %d random files of up to %d lines); history check --check / format / format / --check on the real command: bytes must equal Bytes(Fmt(file)), second format changes nothing, --check never writes and fails exactly when the spec says; non-trivial = formatting changes the file, fails, or the file is empty", lines, keepMod, simNum, simDepth)
	}
	c.Assumptions = append(c.Assumptions, "most files are formatted in batches with --all (C08 checks that --all equals single invocations); a sample and all failing files use the single-file command")
	c.Summary = fmt.Sprintf("theorem_states=%d files=%d cli=%d", th.Distinct, len(cases), cli)
	return nil
}

func tlaBool(b bool) string {
	if b {
		return "TRUE"
	}
	return "FALSE"
}

func generateObs(pool *inprocPool, c *Ctx, root, text string) (asmObs, error) {
	rep, err := pool.run(root, text)
	if err != nil {
		return asmObs{}, err
	}
	if rep.Died || rep.Panic != "" {
		res := c.runCLI(root, text, "-d", root, "regex", "generate", "-")
		if res.Exit != 0 {
			return asmObs{Fail: "fail"}, nil
		}
		return asmObs{Out: res.Stdout}, nil
	}
	if rep.Err != "" {
		return asmObs{Fail: "fail"}, nil
	}
	return asmObs{Out: rep.Out}, nil
}

// fmtBatch: n files in one tree; --check --all, --all, --all, --check --all.
func fmtBatch(c *Ctx, pool *inprocPool, name string, cs []FmtCase, meaning bool, cli *int64, traceFile string) error {
	root, err := c.newSandbox(name)
	if err != nil {
		return err
	}
	defer os.RemoveAll(root)
	t := Tree{}
	for k, v := range fmtIncludes {
		t[k] = v
	}
	names := make([]string, len(cs))
	for i, fc := range cs {
		names[i] = fmt.Sprintf("%06d.ra", 100000+i)
		t["regex-assembly/"+names[i]] = fc.Raw
	}
	if err := writeTree(root, t); err != nil {
		return err
	}
	before, _ := snapshot(root)
	var gen0 []asmObs
	if meaning {
		for _, fc := range cs {
			o, err := generateObs(pool, c, root, fc.Raw)
			if err != nil {
				return err
			}
			gen0 = append(gen0, o)
		}
	}
	bad := func(i int, why string, extra map[string]any) {
		d := map[string]any{"file": cs[i].Raw, "spec_formatted": cs[i].Out, "why": why, "mode": "--all batch"}
		for k, v := range extra {
			d[k] = v
		}
		c.violation("format", d)
	}
	failingSet := func(res CLIResult) map[string]bool {
		m := map[string]bool{}
		for _, x := range reNotFormatted.FindAllStringSubmatch(res.Stdout, -1) {
			m[x[1]] = true
		}
		return m
	}
	// 1. --check on the raw files: verdict per file, nothing written
	r1 := c.runCLI(root, "", "-d", root, "regex", "format", "--check", "--all")
	atomic.AddInt64(cli, 1)
	f1 := failingSet(r1)
	anyFail := false
	for i, fc := range cs {
		if f1[names[i]] == fc.Check {
			bad(i, fmt.Sprintf("format --check reports failure=%v but the spec says check passes=%v", f1[names[i]], fc.Check), nil)
		}
		anyFail = anyFail || !fc.Check
	}
	if (r1.Exit != 0) != anyFail {
		c.violation("format", map[string]any{"why": fmt.Sprintf("format --check --all exit status %d but some file must fail = %v", r1.Exit, anyFail), "stderr": lastLine(r1.Stderr)})
	}
	after1, _ := snapshot(root)
	if d := diffTrees(before, after1); len(d) > 0 {
		c.violation("format", map[string]any{"why": "format --check wrote to the tree", "diff": d})
	}
	// 2. format
	var tenv []string
	if traceFile != "" {
		tenv = []string{"CRS_VERIF_TRACE=" + traceFile}
	}
	r2 := c.runCLIEnv(root, "", tenv, 60*time.Second, "-d", root, "regex", "format", "--all")
	atomic.AddInt64(cli, 1)
	if r2.Exit != 0 {
		c.violation("format", map[string]any{"why": fmt.Sprintf("format --all failed with exit %d on files the spec formats", r2.Exit), "stderr": lastLine(r2.Stderr)})
	}
	after2, _ := snapshot(root)
	for i, fc := range cs {
		got := after2["regex-assembly/"+names[i]]
		if got != fc.Out {
			bad(i, "formatted bytes differ from the canonical layout of the spec", map[string]any{"real_formatted": got})
		}
	}
	for k, v := range fmtIncludes {
		if after2[k] != v {
			c.violation("format", map[string]any{"why": "an already canonical include file was changed by format --all", "path": k, "now": after2[k]})
		}
	}
	// 3. format again: nothing changes
	r3 := c.runCLI(root, "", "-d", root, "regex", "format", "--all")
	atomic.AddInt64(cli, 1)
	after3, _ := snapshot(root)
	if d := diffTrees(after2, after3); len(d) > 0 || r3.Exit != 0 {
		for i := range cs {
			if after3["regex-assembly/"+names[i]] != after2["regex-assembly/"+names[i]] {
				bad(i, "formatting an already formatted file changed it", map[string]any{"first": after2["regex-assembly/"+names[i]], "second": after3["regex-assembly/"+names[i]]})
			}
		}
		if r3.Exit != 0 {
			c.violation("format", map[string]any{"why": "second format --all failed", "stderr": lastLine(r3.Stderr)})
		}
	}
	// 4. --check right after format: passes unless the lint fires
	r4 := c.runCLI(root, "", "-d", root, "regex", "format", "--check", "--all")
	atomic.AddInt64(cli, 1)
	f4 := failingSet(r4)
	for i, fc := range cs {
		if f4[names[i]] != fc.Lint {
			bad(i, fmt.Sprintf("format --check right after format reports failure=%v, lint expected=%v", f4[names[i]], fc.Lint), map[string]any{"real_formatted": after3["regex-assembly/"+names[i]]})
		}
	}
	if meaning {
		for i, fc := range cs {
			o, err := generateObs(pool, c, root, after3["regex-assembly/"+names[i]])
			if err != nil {
				return err
			}
			if o != gen0[i] {
				bad(i, "regex generate differs before and after format", map[string]any{"before": gen0[i], "after": o, "real_formatted": after3["regex-assembly/"+names[i]]})
			}
			_ = fc
		}
	}
	return nil
}

// fmtMixed: one --all run over failing files, decoys and formattable files.
func fmtMixed(c *Ctx, name string, b int, failing, normal []FmtCase, cli *int64) error {
	root, err := c.newSandbox(name)
	if err != nil {
		return err
	}
	defer os.RemoveAll(root)
	t := Tree{}
	for k, v := range fmtIncludes {
		t[k] = v
	}
	pick := func(l []FmtCase, k int) FmtCase {
		return l[int(caseHash([]string{fmt.Sprint(b, k)}, c.Seed)%uint64(len(l)))]
	}
	type ent struct {
		path string
		fc   FmtCase
		fail bool
	}
	var ents []ent
	for k := 0; k < 2; k++ {
		ents = append(ents, ent{fmt.Sprintf("regex-assembly/%06d.ra", 100000+k), pick(failing, k), true})
	}
	for k := 0; k < 20; k++ {
		ents = append(ents, ent{fmt.Sprintf("regex-assembly/%06d.ra", 200000+k), pick(normal, 100+k), false})
	}
	for _, e := range ents {
		t[e.path] = e.fc.Raw
	}
	// not assembly files: between the failing and the other files, and before everything
	t["regex-assembly/000README.md"] = "  ##!> assemble\n"
	t["regex-assembly/100001.ra.orig"] = "  stale \n"
	t["regex-assembly/150000.txt"] = "  x \n"
	if err := writeTree(root, t); err != nil {
		return err
	}
	before, _ := snapshot(root)
	r := c.runCLI(root, "", "-d", root, "regex", "format", "--all")
	atomic.AddInt64(cli, 1)
	after, _ := snapshot(root)
	bad := func(why string, extra map[string]any) {
		d := map[string]any{"why": why, "mode": "--all over failing files, other files and formattable files"}
		for k, v := range extra {
			d[k] = v
		}
		c.violation("format", d)
	}
	if r.Exit == 0 {
		bad("format --all exits 0 although files with an unbalanced end marker cannot be formatted", nil)
	}
	for _, e := range ents {
		want := e.fc.Out
		if e.fail {
			want = e.fc.Raw
		}
		if after[e.path] != want {
			bad("a file of the run is not what formatting it alone gives", map[string]any{"path": e.path, "file": e.fc.Raw, "spec": want, "real": after[e.path], "cannot_be_formatted": e.fail})
			return nil
		}
	}
	for p, v := range before {
		if !strings.HasSuffix(p, ".ra") && after[p] != v {
			bad("format --all changed a file that is not an assembly file", map[string]any{"path": p})
		}
	}
	return nil
}

// fmtSingle: the same history with the single-file command; also the failing files.
func fmtSingle(c *Ctx, pool *inprocPool, name string, fc FmtCase, meaning bool, cli *int64) error {
	root, err := c.newSandbox(name)
	if err != nil {
		return err
	}
	defer os.RemoveAll(root)
	t := Tree{"regex-assembly/932100.ra": fc.Raw}
	for k, v := range fmtIncludes {
		t[k] = v
	}
	if err := writeTree(root, t); err != nil {
		return err
	}
	p := filepath.Join(root, "regex-assembly/932100.ra")
	before, _ := snapshot(root)
	bad := func(why string, extra map[string]any) {
		d := map[string]any{"file": fc.Raw, "spec_formatted": fc.Out, "spec_error": fc.Err, "why": why, "mode": "single file"}
		for k, v := range extra {
			d[k] = v
		}
		c.violation("format", d)
	}
	r1 := c.runCLI(root, "", "-d", root, "regex", "format", "--check", "932100")
	atomic.AddInt64(cli, 1)
	if (r1.Exit == 0) != (fc.Check && fc.Err == "") {
		bad(fmt.Sprintf("format --check exit %d, spec: check passes=%v error=%q", r1.Exit, fc.Check, fc.Err), map[string]any{"stderr": lastLine(r1.Stderr)})
	}
	if s, _ := snapshot(root); len(diffTrees(before, s)) > 0 {
		bad("format --check wrote to the tree", map[string]any{"diff": diffTrees(before, s)})
	}
	r2 := c.runCLI(root, "", "-d", root, "regex", "format", "932100")
	atomic.AddInt64(cli, 1)
	got, _ := os.ReadFile(p)
	if fc.Err != "" {
		// the command cannot do what was asked: loud failure, file untouched
		if r2.Exit == 0 || r2.TimedOut {
			bad(fmt.Sprintf("format must fail (%s) but exit status is %d", fc.Err, r2.Exit), map[string]any{"real_formatted": string(got)})
		} else if string(got) != fc.Raw {
			bad(fmt.Sprintf("format failed (%s) but modified the file", fc.Err), map[string]any{"real_formatted": string(got)})
		}
		s, _ := snapshot(root)
		if d := diffTrees(before, s); len(d) > 0 && string(got) == fc.Raw {
			bad("failing format changed other files", map[string]any{"diff": d})
		}
		return nil
	}
	if r2.Exit != 0 {
		bad(fmt.Sprintf("format failed with exit %d", r2.Exit), map[string]any{"stderr": lastLine(r2.Stderr)})
		return nil
	}
	if string(got) != fc.Out {
		bad("formatted bytes differ from the canonical layout of the spec", map[string]any{"real_formatted": string(got)})
	}
	r3 := c.runCLI(root, "", "-d", root, "regex", "format", "932100")
	atomic.AddInt64(cli, 1)
	got3, _ := os.ReadFile(p)
	if string(got3) != string(got) || r3.Exit != 0 {
		bad("formatting an already formatted file changed it", map[string]any{"first": string(got), "second": string(got3)})
	}
	r4 := c.runCLI(root, "", "-d", root, "regex", "format", "--check", "932100")
	atomic.AddInt64(cli, 1)
	if (r4.Exit != 0) != fc.Lint {
		bad(fmt.Sprintf("format --check right after format: exit %d, lint expected=%v", r4.Exit, fc.Lint), map[string]any{"real_formatted": string(got3)})
	}
	s, _ := snapshot(root)
	for _, d := range diffTrees(before, s) {
		if !strings.HasSuffix(d, "regex-assembly/932100.ra") {
			bad("format touched a file other than its target", map[string]any{"diff": d})
		}
	}
	if meaning {
		o0, err := generateObs(pool, c, root, fc.Raw)
		if err != nil {
			return err
		}
		o1, err := generateObs(pool, c, root, string(got3))
		if err != nil {
			return err
		}
		if o0 != o1 {
			bad("regex generate differs before and after format", map[string]any{"before": o0, "after": o1, "real_formatted": string(got3)})
		}
	}
	return nil
}
