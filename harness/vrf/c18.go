package main

import (
	"fmt"
	"os"
	"path/filepath"
	"sort"
	"strings"
	"sync"
	"sync/atomic"
	"time"
)

func init() { register("C18", checkC18) }

type argCase struct {
	Arg     string `json:"arg"`
	OK      bool   `json:"ok"`
	File    string `json:"file"`
	ID      string `json:"id"`
	K       int    `json:"k"`
	FTarget string `json:"ftarget"` // the file `regex format ARG' addresses (Args!FormatTarget)
}

type rootCase struct {
	Layout [][]string `json:"layout"`
	Start  []string   `json:"start"`
	WithD  bool       `json:"withd"`
	OK     bool       `json:"ok"`
	Root   []string   `json:"root"`
}

func marker(file string) string { return "m" + hashOf(file)[:10] }

func checkC18(c *Ctx) error {
	var mu sync.Mutex
	var args []argCase
	var roots []rootCase
	st1, err := c.runTLC(TLCRun{Module: "MC_Args", Seed: c.Seed, Timeout: 10 * time.Minute, Workers: 4,
		Constants: map[string]string{"Mode": `= "args"`, "Export": "= TRUE"}, Invs: []string{"Theorems", "ExportCase"}}, func(raw []byte) error {
		var a argCase
		if err := mustJSON(raw, &a); err != nil {
			return err
		}
		mu.Lock()
		args = append(args, a)
		mu.Unlock()
		return nil
	})
	if err != nil {
		return fmt.Errorf("model of Args (spec-level): %v", err)
	}
	st2, err := c.runTLC(TLCRun{Module: "MC_Args", Seed: c.Seed, Timeout: 10 * time.Minute, Workers: 4,
		Constants: map[string]string{"Mode": `= "root"`, "Export": "= TRUE"}, Invs: []string{"ExportCase"}}, func(raw []byte) error {
		var r rootCase
		if err := mustJSON(raw, &r); err != nil {
			return err
		}
		mu.Lock()
		roots = append(roots, r)
		mu.Unlock()
		return nil
	})
	if err != nil {
		return err
	}
	sort.Slice(args, func(i, j int) bool { return args[i].Arg < args[j].Arg })
	if c.Tier == "quick" {
		// every accepted argument and every 3rd rejected one
		var keep []argCase
		for i, a := range args {
			if a.OK || caseHash([]string{a.Arg}, c.Seed)%3 == 0 || i < 5 {
				keep = append(keep, a)
			}
		}
		args = keep
	}
	// one tree for all argument cases: every file an accepted argument may name, plus
	// the files a wrapped or truncated chain offset would hit
	root, err := c.newSandbox("args")
	if err != nil {
		return err
	}
	t := Tree{}
	files := map[string]bool{}
	for _, a := range args {
		if a.OK {
			files[a.File] = true
		}
	}
	for _, k := range []int{0, 1, 7, 44, 255, 256, 300} {
		files[fmt.Sprintf("932100-chain%d.ra", k)] = true
	}
	for _, f := range []string{"932100.ra", "93210.ra", "9321000.ra", "932100.raw", "932100.yaml", "x932100.ra", "0932100.ra", "932100x.ra"} {
		files[f] = true
	}
	for f := range files {
		t["regex-assembly/"+f] = marker(f) + "\n"
	}
	t["regex-assembly/include/words.ra"] = "  w1\nw2  \n"
	// a rule with a chain of 9 links: which link `update` rewrites shows the offset used
	var rb strings.Builder
	for i := 0; i <= 8; i++ {
		ind := strings.Repeat("    ", i)
		fmt.Fprintf(&rb, "%sSecRule ARGS \"@rx link%d\" \\\n", ind, i)
		if i == 0 {
			fmt.Fprintf(&rb, "%s    \"id:932100,\\\n", ind)
		} else {
			fmt.Fprintf(&rb, "%s    \"t:none,\\\n", ind)
		}
		if i < 8 {
			fmt.Fprintf(&rb, "%s    chain\"\n", ind)
		} else {
			fmt.Fprintf(&rb, "%s    block\"\n", ind)
		}
	}
	rulesPath := "rules/REQUEST-932-APPLICATION-ATTACK-RCE.conf"
	t[rulesPath] = rb.String()
	if err := writeTree(root, t); err != nil {
		return err
	}
	base, _ := snapshot(root)
	var cli int64
	var treeMu sync.Mutex // update cases modify the shared rules file: serialise them
	parallel(len(args), 16, func(i int) {
		a := args[i]
		bad := func(why string, extra map[string]any) {
			d := map[string]any{"argument": a.Arg, "spec": a, "why": why}
			for k, v := range extra {
				d[k] = v
			}
			c.violation("args", d)
		}
		r := c.runCLI(root, "", "-d", root, "regex", "generate", a.Arg)
		atomic.AddInt64(&cli, 1)
		if a.OK {
			if r.Exit != 0 || r.Stdout != marker(a.File) {
				bad(fmt.Sprintf("argument must resolve to regex-assembly/%s (expected output %q) but exit=%d stdout=%q", a.File, marker(a.File), r.Exit, r.Stdout), nil)
			}
			// the same bytes on stdin give the same result
			r2 := c.runCLI(root, t["regex-assembly/"+a.File], "-d", root, "regex", "generate", "-")
			atomic.AddInt64(&cli, 1)
			if r2.Stdout != r.Stdout || r2.Exit != r.Exit {
				bad(fmt.Sprintf("generate with the file argument prints %q, with the same bytes on stdin %q", r.Stdout, r2.Stdout), nil)
			}
		} else if r.Exit == 0 || r.Stdout != "" {
			bad(fmt.Sprintf("argument must be rejected but exit=%d stdout=%q", r.Exit, r.Stdout), nil)
		}
		// update / compare: the chain offset that is really used
		if a.ID == "932100" || !a.OK {
			treeMu.Lock()
			ru := c.runCLI(root, "", "-d", root, "regex", "update", a.Arg)
			atomic.AddInt64(&cli, 1)
			now, _ := snapshot(root)
			os.WriteFile(filepath.Join(root, rulesPath), []byte(base[rulesPath]), 0o644)
			treeMu.Unlock()
			want := base[rulesPath]
			if a.OK && a.K <= 8 {
				want = strings.Replace(want, fmt.Sprintf("\"@rx link%d\"", a.K), fmt.Sprintf("\"@rx %s\"", marker(a.File)), 1)
			}
			if now[rulesPath] != want {
				bad(fmt.Sprintf("update: chain offset %d of the spec, but the rules file is not the expected one (exit %d)", a.K, ru.Exit), map[string]any{"real_rules_file": now[rulesPath]})
			}
			if (a.OK && a.K <= 8) != (ru.Exit == 0) {
				bad(fmt.Sprintf("update: exit status %d, expected success=%v", ru.Exit, a.OK && a.K <= 8), nil)
			}
			if d := diffTrees(base, now); len(d) > 1 || (len(d) == 1 && d[0] != "changed:"+rulesPath) {
				bad("update touched other files", map[string]any{"diff": d})
			}
		}
	})
	// format: the file the argument addresses (Args!FormatTarget) and nothing else is rewritten; an
	// argument whose target does not exist fails and leaves the tree alone
	parallel(len(args), 16, func(i int) {
		a := args[i]
		if strings.TrimSpace(a.Arg) == "" || a.Arg == "-" || strings.HasPrefix(a.Arg, "-") {
			return // not an argument (cobra takes it for a flag or rejects it)
		}
		d, err := c.newSandbox(fmt.Sprintf("fmtarg%d", i))
		if err != nil {
			return
		}
		defer os.RemoveAll(d)
		ft := Tree{"regex-assembly/932100.ra": " x\n", "regex-assembly/932100-chain1.ra": " x\n", "regex-assembly/932100-chain7.ra": " x\n",
			"regex-assembly/932100-chain0.ra": " x\n", "regex-assembly/932100-chain44.ra": " x\n", "regex-assembly/include/words.ra": " x\n", "regex-assembly/include/932100.ra": " x\n"}
		if a.OK {
			ft["regex-assembly/"+a.File] = " x\n"
		}
		if err := writeTree(d, ft); err != nil {
			return
		}
		before, _ := snapshot(d)
		r := c.runCLI(d, "", "-d", d, "regex", "format", a.Arg)
		atomic.AddInt64(&cli, 1)
		after, _ := snapshot(d)
		diff := diffTrees(before, after)
		// the spec concatenates names: "include/" + "/932100.ra" names the same file as "include/932100.ra"
		target := filepath.Clean(a.FTarget)
		_, exists := ft[target]
		if strings.HasSuffix(a.FTarget, "/") {
			exists = false // a name that ends in a separator can only name a directory
		}
		if exists {
			if r.Exit != 0 || len(diff) != 1 || diff[0] != "changed:"+target {
				c.violation("args", map[string]any{"argument": a.Arg, "spec_target": a.FTarget, "why": fmt.Sprintf("format must rewrite exactly %s; exit=%d diff=%v", a.FTarget, r.Exit, diff)})
			}
		} else if r.Exit == 0 || len(diff) != 0 {
			c.violation("args", map[string]any{"argument": a.Arg, "spec_target": a.FTarget, "why": fmt.Sprintf("the file the argument addresses (%s) does not exist: format must fail and touch nothing; exit=%d diff=%v", a.FTarget, r.Exit, diff)})
		}
	})
	// the same bytes as a file and on stdin: bodies generated by the model (blank space around the lines)
	var bodies []string
	st3, err := c.runTLC(TLCRun{Module: "MC_Args", Seed: c.Seed, Timeout: 10 * time.Minute, Workers: 4,
		Constants: map[string]string{"Mode": `= "stdin"`, "Export": "= TRUE"}, Invs: []string{"ExportCase"}}, func(raw []byte) error {
		var b struct {
			Body string `json:"body"`
		}
		if err := mustJSON(raw, &b); err != nil {
			return err
		}
		mu.Lock()
		bodies = append(bodies, b.Body)
		mu.Unlock()
		return nil
	})
	if err != nil {
		return err
	}
	sort.Strings(bodies)
	bodies = uniq(bodies)
	broot, err := c.newSandbox("bodies")
	if err != nil {
		return err
	}
	bt := Tree{}
	for i, b := range bodies {
		bt[fmt.Sprintf("regex-assembly/%06d.ra", 940000+i)] = b
	}
	if err := writeTree(broot, bt); err != nil {
		return err
	}
	parallel(len(bodies), 16, func(i int) {
		r := c.runCLI(broot, "", "-d", broot, "regex", "generate", fmt.Sprintf("%06d", 940000+i))
		r2 := c.runCLI(broot, bodies[i], "-d", broot, "regex", "generate", "-")
		atomic.AddInt64(&cli, 2)
		if r.Stdout != r2.Stdout || r.Exit != r2.Exit {
			c.violation("stdin", map[string]any{"bytes": bodies[i], "why": fmt.Sprintf("generate with the file argument prints %q (exit %d), with the same bytes on stdin %q (exit %d)", r.Stdout, r.Exit, r2.Stdout, r2.Exit)})
		}
		if strings.TrimSpace(bodies[i]) != bodies[i] {
			c.markNontrivial("body:" + bodies[i])
		}
	})
	// format: rule arguments name assembly files, other names include files
	for _, fa := range []struct{ arg, path string }{{"932100", "regex-assembly/932100.ra"}, {"932100-chain7.ra", "regex-assembly/932100-chain7.ra"}, {"words", "regex-assembly/include/words.ra"}, {"words.ra", "regex-assembly/include/words.ra"}} {
		before, _ := snapshot(root)
		r := c.runCLI(root, "", "-d", root, "regex", "format", fa.arg)
		cli++
		after, _ := snapshot(root)
		d := diffTrees(before, after)
		if r.Exit != 0 || len(d) != 1 || d[0] != "changed:"+fa.path {
			c.violation("args", map[string]any{"argument": fa.arg, "why": fmt.Sprintf("format %s must rewrite exactly %s; exit=%d diff=%v", fa.arg, fa.path, r.Exit, d)})
		}
		os.WriteFile(filepath.Join(root, fa.path), []byte(before[fa.path]), 0o644)
	}
	// root resolution
	parallel(len(roots), 16, func(i int) {
		rc := roots[i]
		b, err := c.newSandbox(fmt.Sprintf("root%d", i))
		if err != nil {
			return
		}
		defer os.RemoveAll(b)
		rt := Tree{}
		for _, s := range [][]string{{}, {"crs"}, {"crs", "sub", "inner"}, {"crs", "rules"}, {"crs", "sub"}, {"crs", "sub", "inner", "deep", "er"}, {"other"}, {"other", "x"},
			{"crs", "regex-assembly", "fixtures", "inner", "rules"}, {"crs", "regex-assembly", "include"}, {"regex-assembly-old", "crs", "util", "a"}} {
			rt[filepath.Join(append([]string{"."}, s...)...)+"/"] = ""
		}
		for _, l := range rc.Layout {
			rt[filepath.Join(filepath.Join(l...), "regex-assembly", "932100.ra")] = "root_" + strings.Join(l, "_") + "\n"
		}
		if err := writeTree(b, rt); err != nil {
			return
		}
		// symbolic links for the start directories that end in one
		os.MkdirAll(filepath.Join(b, "other", "x"), 0o755)
		os.Symlink(filepath.Join("..", "other", "x"), filepath.Join(b, "crs", "lnk"))
		os.Symlink(filepath.Join("..", "crs", "sub"), filepath.Join(b, "other", "lnk2"))
		dir := filepath.Join(append([]string{b}, rc.Start...)...)
		var r CLIResult
		if rc.WithD {
			// other spellings of the same directory (trailing separators, a detour through a sub-directory)
			switch caseHash([]string{jsonStr(rc)}, c.Seed) % 4 {
			case 1:
				dir += "/"
			case 2:
				dir += "//"
			case 3:
				os.MkdirAll(filepath.Join(dir, "zz"), 0o755)
				dir += "/zz/.."
			}
			r = c.runCLI(b, "", "-d", dir, "regex", "generate", "932100")
		} else {
			r = c.runCLI(dir, "", "regex", "generate", "932100")
		}
		atomic.AddInt64(&cli, 1)
		want := "root_" + strings.Join(rc.Root, "_")
		if rc.OK && (r.Exit != 0 || r.Stdout != want) {
			c.violation("root", map[string]any{"case": rc, "why": fmt.Sprintf("the root must be %v (output %q) but exit=%d stdout=%q", rc.Root, want, r.Exit, r.Stdout)})
		}
		if !rc.OK && (r.Exit == 0 || r.Stdout != "") {
			c.violation("root", map[string]any{"case": rc, "why": fmt.Sprintf("no root can be resolved, but exit=%d stdout=%q", r.Exit, r.Stdout)})
		}
	})
	for i, a := range args {
		if i%97 == 0 && len(c.samples) < 4 {
			c.addSample(map[string]any{"argument": a.Arg, "spec": a})
		}
		if a.OK || strings.Contains(a.Arg, "chain") {
			c.markNontrivial(a.Arg)
		}
	}
	c.addSample(map[string]any{"root_case": roots[0]})
	c.countEval(len(args) + len(roots) + len(bodies))
	c.Cov["states"] = st1.Distinct + st2.Distinct + st3.Distinct
	c.Cov["stdin_bodies"] = len(bodies)
	c.Cov["transitions"] = st1.Generated + st2.Generated + st2.Distinct
	c.Cov["argument_cases"] = len(args)
	c.Cov["root_cases"] = len(roots)
	c.Cov["traces_validated_against_impl"] = len(args) + len(roots) + len(bodies)
	c.Cov["cli_executions"] = cli
	c.Cov["exhaustive"] = c.Tier == "thorough"
	c.Cov["rule"] = "argument strings assembled from 3 x 5 x 15 x 6 x 3 pieces (junk, digits of other lengths, chain offsets 0,1,7,255,256,300,65536,2^64, empty, negative, leading zeros, wrong case, extensions, junk); every string is resolved by the spec (Args!Resolve) and by the real generate (marker literal per file shows which file was read; decoy files exist for wrapped offsets 256->0 and 300->44), generate from stdin, update on a chain of 9 links (shows the offset used), and `regex format ARG` (exactly Args!FormatTarget is rewritten; a foreign extension is never bent into a rule file); " + fmt.Sprint(len(bodies)) + " file bodies assembled from 4 x 2 x 9 x 8 pieces (blank space, tabs, CR, form feed, empty lines before, between and after the lines, with and without final newline) given once as file argument and once as the same bytes on stdin; 182 root cases (7 layouts incl. nested roots, a root below another root's regex-assembly directory and below a directory named regex-assembly-old x 13 start directories x -d or cwd, plus 2 start directories that end in a symbolic link, with -d); non-trivial = accepted argument or argument with a chain part"
	c.Summary = fmt.Sprintf("args=%d roots=%d cli=%d", len(args), len(roots), cli)
	return nil
}

// uniq removes adjacent duplicates of a sorted slice.
func uniq(s []string) []string {
	var out []string
	for i, x := range s {
		if i == 0 || x != s[i-1] {
			out = append(out, x)
		}
	}
	return out
}
