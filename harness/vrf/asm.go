package main

import (
	"encoding/json"
	"fmt"
	"hash/fnv"
	"os"
	"path/filepath"
	"strings"
	"sync"
	"sync/atomic"
	"time"
)

// AsmCase is one program exported by an MC_* model together with the
// language the specification expects (`lang`, over the model's universe).
type AsmCase struct {
	Lines  []string            `json:"lines"`
	Files  map[string][]string `json:"files,omitempty"`  // path below regex-assembly -> lines
	Config string              `json:"config,omitempty"` // toolchain.yaml content
	Flags  []string            `json:"flags"`
	Lang   []string            `json:"lang"`
	ITxt   string              `json:"itxt,omitempty"`   // text built by the implementation-shaped machine
	Expect string              `json:"expect,omitempty"` // "" / "ok": must compile; "error": must fail
	Tags   []string            `json:"tags,omitempty"`
	Same   []string            `json:"same,omitempty"` // optional: a second program that must give byte-identical output
}

// fileText: the bytes of an include/exclude file of a model; files whose name starts with "nonl"
// are written without the final line break.
func fileText(path string, ls []string) string {
	t := strings.Join(ls, "\n")
	if strings.HasPrefix(filepath.Base(path), "nonl") {
		return t
	}
	return t + "\n"
}

func (a *AsmCase) text() string { return strings.Join(a.Lines, "\n") + "\n" }

type poolInfo struct {
	Sigma    []string `json:"sigma"`
	N        int      `json:"n"`
	SymMap   any      `json:"symmap"`
	Config   string   `json:"config"`
	CfgSel   string   `json:"cfgsel"`
	CfgName  string   `json:"cfgname"`
	CfgDecoy string   `json:"cfgdecoy"`
	Pool     []struct {
		Txt  string   `json:"txt"`
		Lang []string `json:"lang"`
	} `json:"pool"`
}

// asmReplayer replays AsmCases on the real code.
type asmReplayer struct {
	c            *Ctx
	u            *Universe
	pool         *inprocPool
	root         string              // sandbox CRS root shared by cases that need no files
	budget       int64               // maximum number of cases to replay (sampling), 0 = all
	cliEvery     int64               // every n-th replayed case additionally goes through the CLI
	cliAlways    func(*AsmCase) bool // cases that always go through the CLI as well
	seen         int64
	replayed     int64
	cliRuns      int64
	mism         int64
	sbSeq        int64
	wg           sync.WaitGroup
	ch           chan AsmCase
	errMu        sync.Mutex
	err          error
	keepMod      uint64 // keep a case when hash%keepMod==0 (1 = all)
	sharedFiles  map[string][]string
	sharedConfig string
	cfgName      string // name of the configuration file when it is not toolchain.yaml (selected with -f)
	nontriv      func(cs *AsmCase) bool
	onOutput     func(cs *AsmCase, out string) // called with every successfully generated regex
	traceMu      sync.Mutex
	traceFiles   []string // Direction B: traces recorded by the CLI runs
	traceSrc     []string
	traceSeq     int64
	historyDep   []string // in-process disagreements that fresh processes do not show
	nHistoryDep  int
}

func (c *Ctx) newAsmReplayer(keepMod uint64, cliEvery int64) (*asmReplayer, error) {
	pool, err := c.newInprocPool()
	if err != nil {
		return nil, err
	}
	root, err := c.newSandbox("asmroot")
	if err != nil {
		return nil, err
	}
	if err := os.MkdirAll(filepath.Join(root, "regex-assembly"), 0o755); err != nil {
		return nil, err
	}
	r := &asmReplayer{c: c, pool: pool, root: root, keepMod: keepMod, cliEvery: cliEvery, ch: make(chan AsmCase, 4096)}
	for w := 0; w < 16; w++ {
		r.wg.Add(1)
		go func() {
			defer r.wg.Done()
			for cs := range r.ch {
				if e := r.replay(cs); e != nil {
					r.errMu.Lock()
					if r.err == nil {
						r.err = e
					}
					r.errMu.Unlock()
				}
			}
		}()
	}
	return r, nil
}

func caseHash(lines []string, seed int64) uint64 {
	h := fnv.New64a()
	fmt.Fprintf(h, "%d|", seed)
	for _, l := range lines {
		h.Write([]byte(l))
		h.Write([]byte{0})
	}
	// FNV's low bits only depend on the low bits of the input bytes: without a final mix, `hash % 16`
	// dropped whole classes of cases (all format --all transitions of one tree, for instance)
	x := h.Sum64()
	x ^= x >> 33
	x *= 0xff51afd7ed558ccd
	x ^= x >> 33
	x *= 0xc4ceb9fe1a85ec53
	x ^= x >> 33
	return x
}

// onCase is the TLC output callback.
func (r *asmReplayer) onCase(raw []byte) error {
	if strings.HasPrefix(string(raw), `{"poolinfo"`) {
		var pi struct {
			P     poolInfo            `json:"poolinfo"`
			Files map[string][]string `json:"files"`
		}
		if err := mustJSON(raw, &pi); err != nil {
			return err
		}
		r.u = newUniverse(pi.P.Sigma, pi.P.N)
		if m, ok := pi.P.SymMap.(map[string]any); ok {
			for sym, hx := range m {
				var b byte
				fmt.Sscanf(hx.(string), "%02x", &b)
				r.u.Map[sym] = string([]byte{b})
			}
		}
		// binding self-check: the concrete text of every pool entry must have the
		// language the specification assigns to its fragment
		for _, p := range pi.P.Pool {
			l, err := r.u.langOfRegex(p.Txt)
			if err != nil {
				return fmt.Errorf("pool entry %q does not compile: %v", p.Txt, err)
			}
			a, b := langDiff(l, setOf(p.Lang))
			if len(a)+len(b) > 0 {
				return fmt.Errorf("pool entry %q: Go regexp and the spec's fragment disagree (only regexp %v, only spec %v)", p.Txt, a, b)
			}
		}
		r.c.Cov["pool_entries_cross_checked"] = len(pi.P.Pool)
		r.sharedConfig = pi.P.Config
		if pi.P.Config != "" {
			// toolchain.yaml of this model instance (absent when empty)
			name := "toolchain.yaml"
			t := Tree{}
			if pi.P.CfgName != "" && pi.P.CfgName != name {
				name = pi.P.CfgName
				r.cfgName = name
				t["regex-assembly/toolchain.yaml"] = pi.P.CfgDecoy // must be ignored
			}
			t["regex-assembly/"+name] = pi.P.Config
			if err := writeTree(r.root, t); err != nil {
				return err
			}
		}
		if len(pi.Files) > 0 {
			// the file set shared by all cases of this model (never written by generate)
			t := Tree{}
			for p, ls := range pi.Files {
				t["regex-assembly/"+p] = fileText(p, ls)
			}
			if err := writeTree(r.root, t); err != nil {
				return err
			}
			// files of the same names in the WORKING directory of the runs: never to be read
			dec := Tree{}
			for p := range pi.Files {
				dec[filepath.Base(p)] = "zz\n"
			}
			if err := writeTree(r.root, dec); err != nil {
				return err
			}
			r.sharedFiles = pi.Files
		}
		return nil
	}
	var cs AsmCase
	if err := mustJSON(raw, &cs); err != nil {
		return err
	}
	atomic.AddInt64(&r.seen, 1)
	if r.u == nil {
		return fmt.Errorf("case before poolinfo")
	}
	if r.keepMod > 1 && caseHash(cs.Lines, r.c.Seed)%r.keepMod != 0 && !r.always(&cs) {
		return nil
	}
	r.ch <- cs
	r.errMu.Lock()
	defer r.errMu.Unlock()
	return r.err
}

// always: cases that are replayed regardless of sampling (none by default).
func (r *asmReplayer) always(cs *AsmCase) bool { return false }

func (r *asmReplayer) finish() error {
	close(r.ch)
	r.wg.Wait()
	r.pool.close()
	if r.err != nil {
		return r.err
	}
	if r.nHistoryDep > 0 {
		r.c.Cov["history_dependent_in_process_results"] = r.nHistoryDep
		if len(r.c.Violations) == 0 {
			// compilations in one process influence each other (C08's subject); for this property the
			// run is inconclusive unless a fresh-process violation was found as well
			return fmt.Errorf("%d in-process results differ from fresh-process results of the same program (state leaks between compilations in one process - see C08), e.g. %s", r.nHistoryDep, r.historyDep[0])
		}
	}
	// Direction B: the executions recorded by the CLI runs must be behaviours of AsmShape
	var files, srcs []string
	for i, f := range r.traceFiles {
		if _, err := os.Stat(f); err == nil {
			files = append(files, f)
			srcs = append(srcs, r.traceSrc[i])
		}
	}
	if len(files) == 0 {
		return nil
	}
	tr, err := r.c.validateAsmTraces(files, srcs)
	cleanPairs := map[[2]string]bool{}
	for _, f := range files {
		readCleanPairs(f, cleanPairs)
		os.Remove(f)
	}
	if err != nil {
		return err
	}
	// ... and what the clean-up passes did to every assembled text must be Cleanup!Pipeline
	nclean, badPair, err := r.c.validateCleanPairs(cleanPairs)
	if err != nil {
		return err
	}
	if badPair != "" {
		r.c.violation("trace", map[string]any{"why": "the recorded result of the clean-up passes differs from their transcription Cleanup!Pipeline", "pair": badPair})
	}
	r.c.mu.Lock()
	pc, _ := r.c.Cov["recorded_cleanups_validated"].(int)
	r.c.Cov["recorded_cleanups_validated"] = pc + nclean
	r.c.mu.Unlock()
	r.c.mu.Lock()
	prev, _ := r.c.Cov["recorded_traces_validated"].(int)
	r.c.Cov["recorded_traces_validated"] = prev + tr.Processes
	pe, _ := r.c.Cov["recorded_events_validated"].(int)
	r.c.Cov["recorded_events_validated"] = pe + tr.Consumed
	r.c.mu.Unlock()
	if !tr.Accepted {
		r.c.violation("trace", map[string]any{"why": "a recorded execution of the assembler is not a behaviour of AsmShape", "program": tr.RejectedSrc,
			"rejected_event": tr.RejectedEv, "event_index": tr.Consumed, "spec_state": tr.State})
	}
	return nil
}

func nontrivialProgram(cs *AsmCase) bool {
	entries, marks := 0, 0
	for _, l := range cs.Lines {
		switch {
		case strings.HasPrefix(l, "##!=") || strings.HasPrefix(l, "##!>") || strings.HasPrefix(l, "##!^") || strings.HasPrefix(l, "##!$") || strings.HasPrefix(l, "##!+"):
			marks++
		case strings.HasPrefix(l, "##!"), strings.TrimSpace(l) == "":
		default:
			entries++
		}
	}
	return entries >= 2 && marks >= 1
}

// prepare writes the files a case needs and returns its CRS root.
func (r *asmReplayer) prepare(cs *AsmCase) (string, func(), error) {
	if len(cs.Files) == 0 && cs.Config == "" {
		return r.root, func() {}, nil
	}
	n := atomic.AddInt64(&r.sbSeq, 1)
	root, err := r.c.newSandbox(fmt.Sprintf("asm%d", n))
	if err != nil {
		return "", nil, err
	}
	t := Tree{"regex-assembly/": ""}
	for p, ls := range cs.Files {
		t["regex-assembly/"+p] = fileText(p, ls)
	}
	if cs.Config != "" {
		t["regex-assembly/toolchain.yaml"] = cs.Config
	}
	if err := writeTree(root, t); err != nil {
		return "", nil, err
	}
	return root, func() { os.RemoveAll(root) }, nil
}

type asmObs struct {
	Out  string `json:"out"`
	Fail string `json:"fail,omitempty"`
}

func (r *asmReplayer) viaCLI(root, text string) asmObs {
	// every CLI execution records its transitions (hooks of the verif build)
	n := atomic.AddInt64(&r.traceSeq, 1)
	var env []string
	limit := int64(1200)
	if r.c.Tier == "thorough" {
		limit = 6000
	}
	if n <= limit {
		tf := filepath.Join(r.c.Scratch, fmt.Sprintf("trace-%p-%d.ndjson", r, n))
		env = []string{"CRS_VERIF_TRACE=" + tf}
		r.traceMu.Lock()
		r.traceFiles = append(r.traceFiles, tf)
		r.traceSrc = append(r.traceSrc, text)
		r.traceMu.Unlock()
	}
	args := []string{"-d", root, "regex", "generate", "-"}
	if r.cfgName != "" {
		args = append([]string{"-f", r.cfgName}, args...)
	}
	res := r.c.runCLIEnv(root, text, env, 20*time.Second, args...)
	atomic.AddInt64(&r.cliRuns, 1)
	if res.Exit != 0 || res.TimedOut {
		return asmObs{Out: res.Stdout, Fail: fmt.Sprintf("exit %d: %s", res.Exit, lastLine(res.Stderr))}
	}
	return asmObs{Out: res.Stdout}
}

func lastLine(s string) string {
	s = strings.TrimSpace(s)
	if i := strings.LastIndex(s, "\n"); i >= 0 {
		s = s[i+1:]
	}
	if len(s) > 300 {
		s = s[:300]
	}
	return s
}

// judge compares an observation with the case's expectation; "" = conforms.
func (r *asmReplayer) judge(cs *AsmCase, o asmObs) string {
	if strings.HasPrefix(cs.Expect, "unspecified") {
		return "" // the specification leaves the outcome open
	}
	if strings.HasPrefix(cs.Expect, "error") {
		if o.Fail == "" {
			return fmt.Sprintf("expected a failure (%s), got regex %q", cs.Expect, o.Out)
		}
		if o.Out != "" {
			return fmt.Sprintf("failure (%s), but a regex was printed: %q", cs.Expect, o.Out)
		}
		return ""
	}
	if o.Fail != "" {
		return "well-formed program does not compile: " + o.Fail
	}
	for _, l := range cs.Lines {
		if strings.HasPrefix(l, "(?i)") || strings.HasPrefix(l, "(?s)") {
			return "" // inline flag groups are outside the language property (C01's quantifier)
		}
	}
	want := setOf(cs.Lang)
	got, err := r.u.langOfRegex(o.Out)
	if err != nil {
		return fmt.Sprintf("output %q is not an RE2 expression: %v", o.Out, err)
	}
	extra, missing := langDiff(got, want)
	if len(extra)+len(missing) > 0 {
		return fmt.Sprintf("language differs: output %q matches but plain reading does not %s; plain reading matches but output does not %s", o.Out, showStrs(extra), showStrs(missing))
	}
	return ""
}

// observe runs one program, in-process when possible, through the CLI otherwise.
func (r *asmReplayer) observe(root, text string, forceCLI bool) (asmObs, bool, error) {
	if !forceCLI && r.cfgName == "" { // the -f flag is a feature of the CLI
		rep, err := r.pool.run(root, text)
		if err != nil {
			return asmObs{}, false, err
		}
		if !rep.Died && rep.Panic == "" {
			o := asmObs{Out: rep.Out, Fail: rep.Err}
			if o.Fail != "" {
				o.Out = ""
			}
			return o, false, nil
		}
		// the code under test terminated the process or panicked: only the CLI tells how
	}
	return r.viaCLI(root, text), true, nil
}

// verdictFor evaluates a case completely with the given way of observing.
func (r *asmReplayer) verdictFor(cs *AsmCase, root string, forceCLI bool) (string, asmObs, error) {
	obs, _, err := r.observe(root, cs.text(), forceCLI)
	if err != nil {
		return "", obs, err
	}
	v := r.judge(cs, obs)
	if v == "" && len(cs.Same) > 0 && obs.Fail == "" {
		o2, _, err := r.observe(root, strings.Join(cs.Same, "\n")+"\n", forceCLI)
		if err != nil {
			return "", obs, err
		}
		if o2.Out != obs.Out || o2.Fail != "" {
			v = fmt.Sprintf("the program and its hand-inlined form %q must compile identically: %q vs %q %s", cs.Same, obs.Out, o2.Out, o2.Fail)
		}
	}
	return v, obs, nil
}

func (r *asmReplayer) replay(cs AsmCase) error {
	n := atomic.AddInt64(&r.replayed, 1)
	r.c.countEval(1)
	nt := nontrivialProgram
	if r.nontriv != nil {
		nt = r.nontriv
	}
	if nt(&cs) {
		r.c.markNontrivial(hashOf(cs.Lines))
	}
	root, done, err := r.prepare(&cs)
	if err != nil {
		return err
	}
	defer done()
	verdict, obs, err := r.verdictFor(&cs, root, false)
	if err != nil {
		return err
	}
	if r.onOutput != nil && obs.Fail == "" {
		r.onOutput(&cs, obs.Out)
	}
	if n <= 3 {
		r.c.addSample(map[string]any{"program": cs.Lines, "flags": cs.Flags, "expect": cs.Expect, "expected_language": cs.Lang,
			"hand_inlined": cs.Same, "real_output": obs.Out, "real_failure": obs.Fail})
	}
	if verdict != "" || (r.cliEvery > 0 && n%r.cliEvery == 0) || (r.cliAlways != nil && r.cliAlways(&cs)) {
		// the CLI binary is the reference observation
		cv, cobs, err := r.verdictFor(&cs, root, true)
		if err != nil {
			return err
		}
		if verdict != "" && cv == "" {
			// the behaviour may depend on the process (hash-map iteration order):
			// the property quantifies over all executions, so keep trying fresh processes
			for try := 0; try < 40 && cv == ""; try++ {
				cv, cobs, err = r.verdictFor(&cs, root, true)
				if err != nil {
					return err
				}
			}
			if cv == "" {
				// Not reproducible in fresh processes: the in-process result depended on what the
				// worker compiled before (state that survives between compilations in one process).
				// This says nothing about THIS program on its own; remember it and go on.
				r.errMu.Lock()
				if len(r.historyDep) < 5 {
					r.historyDep = append(r.historyDep, fmt.Sprintf("%s; program %q", verdict, cs.Lines))
				}
				r.nHistoryDep++
				r.errMu.Unlock()
				return nil
			}
			cv = "(in some executions only) " + cv
		}
		if verdict == "" && cv == "" && cobs.Out != obs.Out {
			cv = fmt.Sprintf("CLI output %q differs from the library result %q", cobs.Out, obs.Out)
		}
		verdict, obs = cv, cobs
	}
	if verdict == "" {
		return nil
	}
	atomic.AddInt64(&r.mism, 1)
	if key := r.knownSignature(&cs, obs); key != "" && r.c.knownFinding(key, strings.Join(cs.Lines, " / ")) {
		return nil
	}
	r.c.violation("assembly", map[string]any{"universe": map[string]any{"sigma": r.u.Sigma, "n": r.u.N, "symmap": r.u.Map, "config": r.sharedConfig},
		"program": cs.Lines, "files": r.filesOf(&cs), "config": cs.Config, "flags": cs.Flags,
		"expected_language": cs.Lang, "observed": obs, "why": verdict, "spec_text": cs.ITxt, "expect": cs.Expect, "hand_inlined": cs.Same})
	return nil
}

func (r *asmReplayer) filesOf(cs *AsmCase) map[string][]string {
	if len(cs.Files) > 0 {
		return cs.Files
	}
	return r.sharedFiles
}

// knownSignature recognises the observational signatures of the listed known
// findings (see DESIGN.md section 5); "" when none applies.
func (r *asmReplayer) knownSignature(cs *AsmCase, o asmObs) string {
	if o.Fail != "" || strings.HasPrefix(cs.Expect, "error") {
		return ""
	}
	// "dotall-flag-group-stripped": rassemble merged alternatives into (?s:.), the
	// flag group was stripped and the plain `.` no longer matches "\n".
	for _, f := range cs.Flags {
		if f == "s" {
			return ""
		}
	}
	got, err := r.u.langOfRegex(o.Out)
	if err != nil {
		return ""
	}
	want := setOf(cs.Lang)
	extra, missing := langDiff(got, want)
	if len(extra) > 0 || len(missing) == 0 {
		return ""
	}
	for _, m := range missing {
		if !strings.Contains(m, "\n") {
			return ""
		}
	}
	if !hasUnescapedDot(o.Out) {
		return ""
	}
	// with the s flag restored the output must match every missing string
	got2, err := r.u.langOfRegex("(?s)" + o.Out)
	if err != nil {
		return ""
	}
	for _, m := range missing {
		if !got2[m] {
			return ""
		}
	}
	return "dotall-flag-group-stripped"
}

func hasUnescapedDot(s string) bool {
	inClass := false
	for i := 0; i < len(s); i++ {
		switch s[i] {
		case '\\':
			i++
		case '[':
			inClass = true
		case ']':
			inClass = false
		case '.':
			if !inClass {
				return true
			}
		}
	}
	return false
}

func jsonStr(v any) string {
	b, _ := json.Marshal(v)
	return string(b)
}

// replayAssembly re-executes one recorded assembly violation through the CLI.
func replayAssembly(c *Ctx, detail map[string]any) (bool, string, error) {
	b, _ := json.Marshal(detail)
	var d struct {
		Universe struct {
			Sigma  []string          `json:"sigma"`
			N      int               `json:"n"`
			SymMap map[string]string `json:"symmap"`
			Config string            `json:"config"`
		} `json:"universe"`
		Program []string            `json:"program"`
		Files   map[string][]string `json:"files"`
		Config  string              `json:"config"`
		Flags   []string            `json:"flags"`
		Lang    []string            `json:"expected_language"`
		Expect  string              `json:"expect"`
		Same    []string            `json:"hand_inlined"`
	}
	if err := json.Unmarshal(b, &d); err != nil {
		return false, "", err
	}
	root, err := c.newSandbox("replay")
	if err != nil {
		return false, "", err
	}
	t := Tree{"regex-assembly/": ""}
	for p, ls := range d.Files {
		t["regex-assembly/"+p] = fileText(p, ls)
	}
	cfg := d.Config
	if cfg == "" {
		cfg = d.Universe.Config
	}
	if cfg != "" {
		t["regex-assembly/toolchain.yaml"] = cfg
	}
	if err := writeTree(root, t); err != nil {
		return false, "", err
	}
	u := newUniverse(d.Universe.Sigma, d.Universe.N)
	for k, v := range d.Universe.SymMap {
		u.Map[k] = v
	}
	r := &asmReplayer{c: c, u: u, root: root}
	cs := AsmCase{Lines: d.Program, Flags: d.Flags, Lang: d.Lang, Expect: d.Expect, Same: d.Same}
	v, obs, err := r.verdictFor(&cs, root, true)
	if err != nil {
		return false, "", err
	}
	if v != "" {
		if key := r.knownSignature(&cs, obs); key != "" && c.knownFinding(key, strings.Join(cs.Lines, " / ")) {
			return false, "known finding " + key, nil
		}
	}
	return v != "", v, nil
}
