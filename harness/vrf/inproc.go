package main

import (
	"bufio"
	"encoding/json"
	"fmt"
	"io"
	"os"
	"os/exec"
	"path/filepath"
	"sync"
	"sync/atomic"
	"syscall"
	"time"
)

// buildInproc builds the in-process batch worker against the tree under test.
func (c *Ctx) buildInproc() (string, error) {
	dir := filepath.Join(c.Scratch, "inproc-src")
	if err := os.MkdirAll(dir, 0o755); err != nil {
		return "", err
	}
	src, err := os.ReadFile(filepath.Join(verifRoot, "harness", "inproc", "main.go"))
	if err != nil {
		return "", err
	}
	if err := os.WriteFile(filepath.Join(dir, "main.go"), src, 0o644); err != nil {
		return "", err
	}
	gomod := fmt.Sprintf("module inproc\n\ngo 1.23.0\n\nrequire github.com/coreruleset/crs-toolchain/v2 v2.0.0\n\nreplace github.com/coreruleset/crs-toolchain/v2 => %s\n", c.Repo)
	if err := os.WriteFile(filepath.Join(dir, "go.mod"), []byte(gomod), 0o644); err != nil {
		return "", err
	}
	sum, err := os.ReadFile(filepath.Join(c.Repo, "go.sum"))
	if err != nil {
		return "", err
	}
	if err := os.WriteFile(filepath.Join(dir, "go.sum"), sum, 0o644); err != nil {
		return "", err
	}
	bin := filepath.Join(c.Scratch, "inproc")
	cmd := exec.Command("go", "build", "-tags", "verif", "-o", bin, ".")
	cmd.Dir = dir
	cmd.Env = goEnv()
	if b, err := cmd.CombinedOutput(); err != nil {
		return "", fmt.Errorf("building in-process worker failed: %v\n%s", err, b)
	}
	return bin, nil
}

type inprocReply struct {
	ID    int64  `json:"id"`
	Out   string `json:"out"`
	Err   string `json:"err,omitempty"`
	Panic string `json:"panic,omitempty"`
	Died  bool   `json:"died,omitempty"`
	Hung  bool   `json:"hung,omitempty"` // no reply within the watchdog period: the worker was killed
}

// inprocWatchdog is how long one request may take before the worker counts as hung.
const inprocWatchdog = 20 * time.Second

// inprocWorker is one subprocess; calls are serialised per worker.
type inprocWorker struct {
	env      []string
	bin      string
	cmd      *exec.Cmd
	in       io.WriteCloser
	out      *bufio.Reader
	next     int64
	watchdog time.Duration // 0: inprocWatchdog
}

func (w *inprocWorker) start() error {
	w.cmd = exec.Command(w.bin)
	// the worker must not outlive the harness (code under test may spin forever)
	w.cmd.SysProcAttr = &syscall.SysProcAttr{Pdeathsig: syscall.SIGKILL}
	w.cmd.Env = append([]string{"CI=true", "PATH=/usr/bin:/bin"}, w.env...)
	var err error
	if w.in, err = w.cmd.StdinPipe(); err != nil {
		return err
	}
	so, err := w.cmd.StdoutPipe()
	if err != nil {
		return err
	}
	w.out = bufio.NewReaderSize(so, 1<<20)
	return w.cmd.Start()
}

func (w *inprocWorker) stop() {
	if w.cmd != nil {
		w.in.Close()
		w.cmd.Process.Kill()
		w.cmd.Wait()
		w.cmd = nil
	}
}

func (w *inprocWorker) run(root, text string) (inprocReply, error) {
	return w.runMode(root, text, "")
}

func (w *inprocWorker) runMode(root, text, mode string) (inprocReply, error) {
	if w.cmd == nil {
		if err := w.start(); err != nil {
			return inprocReply{}, err
		}
	}
	w.next++
	b, _ := json.Marshal(map[string]any{"id": w.next, "root": root, "text": text, "mode": mode})
	b = append(b, '\n')
	if _, err := w.in.Write(b); err != nil {
		w.stop()
		return inprocReply{ID: w.next, Died: true}, nil
	}
	// watchdog: code under test that loops forever must not hang the harness
	proc := w.cmd.Process
	var hung int32
	wd := w.watchdog
	if wd == 0 {
		wd = inprocWatchdog
	}
	timer := time.AfterFunc(wd, func() { atomic.StoreInt32(&hung, 1); proc.Kill() })
	line, err := w.out.ReadBytes('\n')
	timer.Stop()
	if err != nil {
		w.stop()
		return inprocReply{ID: w.next, Died: true, Hung: atomic.LoadInt32(&hung) == 1}, nil
	}
	var r inprocReply
	if err := json.Unmarshal(line, &r); err != nil || r.ID != w.next {
		w.stop()
		return inprocReply{}, fmt.Errorf("in-process worker protocol error: %v %q", err, line)
	}
	return r, nil
}

// inprocPool hands out workers.
type inprocPool struct {
	mu   sync.Mutex
	free []*inprocWorker
	bin  string
}

func (c *Ctx) newInprocPool() (*inprocPool, error) {
	bin, err := c.buildInproc()
	if err != nil {
		return nil, err
	}
	return &inprocPool{bin: bin}, nil
}

func (p *inprocPool) get() *inprocWorker {
	p.mu.Lock()
	defer p.mu.Unlock()
	if n := len(p.free); n > 0 {
		w := p.free[n-1]
		p.free = p.free[:n-1]
		return w
	}
	return &inprocWorker{bin: p.bin}
}

func (p *inprocPool) put(w *inprocWorker) {
	p.mu.Lock()
	p.free = append(p.free, w)
	p.mu.Unlock()
}

func (p *inprocPool) close() {
	p.mu.Lock()
	defer p.mu.Unlock()
	for _, w := range p.free {
		w.stop()
	}
	p.free = nil
}

// run executes one program in some worker.
func (p *inprocPool) run(root, text string) (inprocReply, error) {
	w := p.get()
	defer p.put(w)
	return w.run(root, text)
}
