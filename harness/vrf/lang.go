package main

import (
	"fmt"
	"regexp"
	"sort"
	"strings"
)

// Universe is the finite set of subject strings languages are compared on.
type Universe struct {
	Sigma []string
	N     int
	All   []string
	Map   map[string]string // symbol of the model -> the character it stands for
}

// real turns a subject string of the model into the bytes it stands for.
func (u *Universe) real(s string) string {
	if len(u.Map) == 0 {
		return s
	}
	var b strings.Builder
	for _, r := range s {
		if m, ok := u.Map[string(r)]; ok {
			b.WriteString(m)
		} else {
			b.WriteRune(r)
		}
	}
	return b.String()
}

func newUniverse(sigma []string, n int) *Universe {
	u := &Universe{Sigma: append([]string{}, sigma...), N: n, Map: map[string]string{}}
	sort.Strings(u.Sigma)
	cur := []string{""}
	u.All = append(u.All, "")
	for l := 1; l <= n; l++ {
		var next []string
		for _, p := range cur {
			for _, ch := range u.Sigma {
				next = append(next, p+ch)
			}
		}
		u.All = append(u.All, next...)
		cur = next
	}
	return u
}

// langOfRegex evaluates a regex text (as printed by `regex generate`) on the
// universe with Go's regexp package, i.e. RE2 semantics, as a full match.
func (u *Universe) langOfRegex(text string) (map[string]bool, error) {
	re, err := regexp.Compile(`^(?:` + text + `)$`)
	if err != nil {
		return nil, err
	}
	// `$` without the m flag must not match before a trailing newline in RE2/Go: it does not.
	l := map[string]bool{}
	for _, s := range u.All {
		if re.MatchString(u.real(s)) {
			l[s] = true
		}
	}
	return l, nil
}

func setOf(xs []string) map[string]bool {
	m := map[string]bool{}
	for _, x := range xs {
		m[x] = true
	}
	return m
}

// langDiff returns strings only in a and strings only in b.
func langDiff(a, b map[string]bool) (onlyA, onlyB []string) {
	for s := range a {
		if !b[s] {
			onlyA = append(onlyA, s)
		}
	}
	for s := range b {
		if !a[s] {
			onlyB = append(onlyB, s)
		}
	}
	sort.Strings(onlyA)
	sort.Strings(onlyB)
	return
}

func showStrs(xs []string) string {
	q := make([]string, 0, len(xs))
	for i, x := range xs {
		if i >= 6 {
			q = append(q, "...")
			break
		}
		q = append(q, fmt.Sprintf("%q", x))
	}
	return "[" + strings.Join(q, " ") + "]"
}
