package main

import (
	"fmt"
	"strings"
	"time"
)

func init() { register("C04", checkC04) }

// C04: cmdline blocks, for every configuration of the anti-evasion patterns.
func checkC04(c *Ctx) error {
	cfgs := []string{"broken", "crsblock", "named", "mixed", "hostile"}
	lines, thLines := "4", "3"
	if c.Tier == "thorough" {
		cfgs = []string{"absent", "empty", "broken", "partial", "crs", "crsblock", "named", "mixed", "hostile"}
		lines, thLines = "5", "4"
	}
	var states, trans, replayed, cli, seen, mism int64
	for _, cfg := range cfgs {
		consts := func(kv ...string) map[string]string {
			m := map[string]string{"Sigma": "<- MCSigma", "N": "= 4", "LeafD": "<- MCLeafD", "Deviations": "<- MCDev", "Cfg": "<- MCCfg",
				"PoolSel": `= "cmd"`, "CfgSel": fmt.Sprintf("= %q", cfg), "MaxDepth": "= 2"}
			for i := 0; i+1 < len(kv); i += 2 {
				m[kv[i]] = kv[i+1]
			}
			return m
		}
		th, err := c.runTLC(TLCRun{Module: "MC_C01", Seed: c.Seed, Timeout: 30 * time.Minute,
			Constants: consts("MaxLines", "= "+thLines, "Export", "= FALSE", "Theorem", "= TRUE"),
			Invs:      []string{"Compiles", "Refines", "StackShape"}}, nil)
		if err != nil {
			return fmt.Errorf("design theorem for configuration %s (spec-level, says nothing about the code): %v", cfg, err)
		}
		keep := uint64(1)
		if cfg == "named" {
			keep = 4 // every case of this instance goes through the CLI (-f is a flag of the CLI)
		}
		rp, err := c.newAsmReplayer(keep, 15)
		if err != nil {
			return err
		}
		rp.nontriv = func(cs *AsmCase) bool {
			t := strings.Join(cs.Lines, "\n")
			return strings.Contains(t, "cmdline") && (cfg == "partial" || cfg == "crs" || cfg == "crsblock" || cfg == "named" || cfg == "mixed" || cfg == "hostile" || strings.ContainsAny(t, "@~. "))
		}
		ex, err := c.runTLC(TLCRun{Module: "MC_C01", Seed: c.Seed, Timeout: 30 * time.Minute,
			Constants: consts("MaxLines", "= "+lines, "Export", "= TRUE", "Theorem", "= FALSE"),
			Invs:      []string{"Compiles", "ExportCase"}}, func(raw []byte) error {
			// only programs with a cmdline block are of interest here
			if !strings.HasPrefix(string(raw), `{"poolinfo"`) && !strings.Contains(string(raw), "cmdline") {
				return nil
			}
			return rp.onCase(raw)
		})
		ferr := rp.finish()
		if err != nil {
			return err
		}
		if ferr != nil {
			return ferr
		}
		states += th.Distinct + ex.Distinct
		trans += th.Generated + ex.Generated
		replayed += rp.replayed
		cli += rp.cliRuns
		seen += rp.seen
		mism += rp.mism
	}
	if replayed == 0 {
		return fmt.Errorf("no case was replayed")
	}
	c.Cov["states"] = states
	c.Cov["transitions"] = trans
	c.Cov["programs_enumerated"] = seen
	c.Cov["traces_validated_against_impl"] = replayed
	c.Cov["cli_executions"] = cli
	c.Cov["disagreements"] = mism
	c.Cov["configurations"] = cfgs
	c.Cov["exhaustive"] = true
	c.Cov["rule"] = fmt.Sprintf("for each of %d toolchain.yaml variants (of: (absent, empty, unreadable, partial, CRS-like as quoted and as block scalars, CRS-like in a file of another name selected with -f next to a hostile toolchain.yaml, hostile = patterns with a top-level alternation)) TLC enumerates every well-formed program of <= %s lines with unix/windows cmdline blocks over 14 command words (plain, dot, blank, trailing @ and ~, escaped markers, markers elsewhere) and 2 verbatim lines (leading quote, one ending in a marker) alone, next to entries and nested in assemble blocks; the expected language is the STRUCTURAL meaning of the statement (word characters with the anti-evasion pattern between any two, suffix patterns after a marker, each pattern one unit) on all strings over {a,x,.,blank,@} up to length 4; every program with a cmdline block is compiled by the real code with the real toolchain.yaml and language-compared; non-trivial = cmdline block with a non-empty configuration or a word with a marker, dot or blank", len(cfgs), lines)
	c.Summary = fmt.Sprintf("configs=%d programs=%d replayed=%d cli=%d", len(cfgs), seen, replayed, cli)
	return nil
}
