// fakegh.go: a scripted fake GitHub (REST API + release downloads) for running
// the unmodified crs-toolchain binary's self-update against controlled data.
// A plain-HTTP CONNECT proxy on 127.0.0.1 answers every "CONNECT host:443" by
// serving TLS itself (leaf certificate for that host, signed by an ad-hoc CA)
// and speaking HTTP/1.1 inside. Standard library only.
package main

import (
	"archive/tar"
	"bufio"
	"bytes"
	"compress/gzip"
	"crypto/ecdsa"
	"crypto/elliptic"
	"crypto/rand"
	"crypto/sha256"
	"crypto/tls"
	"crypto/x509"
	"crypto/x509/pkix"
	"encoding/json"
	"encoding/pem"
	"fmt"
	"math/big"
	"net"
	"net/http"
	"os"
	"path/filepath"
	"sort"
	"strconv"
	"strings"
	"sync"
	"time"
)

const fghRepoPath = "/repos/coreruleset/crs-toolchain/releases"
const fghDownloadPath = "/coreruleset/crs-toolchain/releases/download/"

// FghAsset is one downloadable file of a release.
type FghAsset struct {
	Name    string // e.g. "crs-toolchain_2.0.0_linux_amd64.tar.gz"
	Content []byte // bytes served
	Fault   string // "" | "500" | "reset" | "truncate"
}

// FghRelease is one entry of the release list.
type FghRelease struct {
	Tag        string // "v2.0.0"
	Draft      bool
	Prerelease bool
	Assets     []FghAsset
}

// FghCatalogue is everything the fake serves.
type FghCatalogue struct {
	Releases  []FghRelease
	ListFault string // "" | "500" | "reset" | "badjson"
}

// FghServer is a running fake.
type FghServer struct {
	cat      FghCatalogue
	ln       net.Listener
	caPath   string
	caCert   *x509.Certificate
	caKey    *ecdsa.PrivateKey
	leafKey  *ecdsa.PrivateKey
	mu       sync.Mutex
	leaves   map[string]*tls.Certificate
	conns    map[net.Conn]struct{}
	requests []string
	connects []string
	stopped  bool
	wg       sync.WaitGroup
}

// fghAssetID is the numeric id of asset j of release i (both 0-based).
func fghAssetID(i, j int) int64 { return int64(i+1)*1000 + int64(j+1) }

func fghStart(dir string, cat FghCatalogue) (*FghServer, error) {
	s := &FghServer{cat: cat, leaves: map[string]*tls.Certificate{}, conns: map[net.Conn]struct{}{}}
	var err error
	if s.caKey, err = ecdsa.GenerateKey(elliptic.P256(), rand.Reader); err != nil {
		return nil, err
	}
	if s.leafKey, err = ecdsa.GenerateKey(elliptic.P256(), rand.Reader); err != nil {
		return nil, err
	}
	tmpl := &x509.Certificate{
		SerialNumber:          big.NewInt(time.Now().UnixNano()),
		Subject:               pkix.Name{CommonName: "fakegh ad-hoc CA", Organization: []string{"fakegh"}},
		NotBefore:             time.Now().Add(-time.Hour),
		NotAfter:              time.Now().Add(24 * time.Hour),
		KeyUsage:              x509.KeyUsageCertSign | x509.KeyUsageDigitalSignature,
		BasicConstraintsValid: true,
		IsCA:                  true,
	}
	der, err := x509.CreateCertificate(rand.Reader, tmpl, tmpl, &s.caKey.PublicKey, s.caKey)
	if err != nil {
		return nil, err
	}
	if s.caCert, err = x509.ParseCertificate(der); err != nil {
		return nil, err
	}
	if err = os.MkdirAll(dir, 0o755); err != nil {
		return nil, err
	}
	if s.ln, err = net.Listen("tcp", "127.0.0.1:0"); err != nil {
		return nil, err
	}
	s.caPath = filepath.Join(dir, fmt.Sprintf("fakegh-ca-%d.pem", s.ln.Addr().(*net.TCPAddr).Port))
	pemBytes := pem.EncodeToMemory(&pem.Block{Type: "CERTIFICATE", Bytes: der})
	if err = os.WriteFile(s.caPath, pemBytes, 0o644); err != nil {
		s.ln.Close()
		return nil, err
	}
	s.wg.Add(1)
	go s.acceptLoop()
	return s, nil
}

// Env returns the environment entries that point a child process at the fake.
// Append them after os.Environ(): the last duplicate wins in os/exec.
func (s *FghServer) Env() []string {
	p := "http://" + s.ln.Addr().String()
	return []string{
		"HTTPS_PROXY=" + p, "https_proxy=" + p, "HTTP_PROXY=" + p, "http_proxy=" + p,
		"NO_PROXY=", "no_proxy=", "ALL_PROXY=", "all_proxy=",
		"SSL_CERT_FILE=" + s.caPath, "SSL_CERT_DIR=" + filepath.Dir(s.caPath),
		"GITHUB_TOKEN=",
	}
}

// Requests returns "<METHOD> <host><path>[?query] accept=<Accept>" per request
// seen inside the tunnels (CONNECT requests themselves are in Connects).
func (s *FghServer) Requests() []string {
	s.mu.Lock()
	defer s.mu.Unlock()
	return append([]string(nil), s.requests...)
}

// Connects returns the "host:port" targets of the CONNECT requests seen.
func (s *FghServer) Connects() []string {
	s.mu.Lock()
	defer s.mu.Unlock()
	return append([]string(nil), s.connects...)
}

// Stop closes the listener and all open connections and waits for the handlers.
func (s *FghServer) Stop() {
	s.mu.Lock()
	s.stopped = true
	for c := range s.conns {
		c.Close()
	}
	s.mu.Unlock()
	s.ln.Close()
	s.wg.Wait()
	os.Remove(s.caPath)
}

func (s *FghServer) acceptLoop() {
	defer s.wg.Done()
	for {
		c, err := s.ln.Accept()
		if err != nil {
			return
		}
		s.mu.Lock()
		if s.stopped {
			s.mu.Unlock()
			c.Close()
			return
		}
		s.conns[c] = struct{}{}
		s.wg.Add(1)
		s.mu.Unlock()
		go func() {
			defer s.wg.Done()
			s.handleConn(c)
			c.Close()
			s.mu.Lock()
			delete(s.conns, c)
			s.mu.Unlock()
		}()
	}
}

// handleConn speaks the proxy protocol: CONNECT gets a TLS tunnel terminated
// here; absolute-URI plain requests are answered directly.
func (s *FghServer) handleConn(raw net.Conn) {
	br := bufio.NewReader(raw)
	for {
		req, err := http.ReadRequest(br)
		if err != nil {
			return
		}
		if req.Method != http.MethodConnect {
			host := req.URL.Host
			if host == "" {
				host = req.Host
			}
			if !s.serve(raw, raw, req, host) {
				return
			}
			continue
		}
		s.mu.Lock()
		s.connects = append(s.connects, req.Host)
		s.mu.Unlock()
		host, _, err := net.SplitHostPort(req.Host)
		if err != nil {
			host = req.Host
		}
		if _, err := raw.Write([]byte("HTTP/1.1 200 Connection established\r\n\r\n")); err != nil {
			return
		}
		tc := tls.Server(raw, &tls.Config{
			NextProtos: []string{"http/1.1"}, // no h2: the client falls back to HTTP/1.1
			GetCertificate: func(h *tls.ClientHelloInfo) (*tls.Certificate, error) {
				if h.ServerName != "" {
					return s.leaf(h.ServerName)
				}
				return s.leaf(host)
			},
		})
		if err := tc.Handshake(); err != nil {
			return
		}
		tbr := bufio.NewReader(tc)
		for {
			r, err := http.ReadRequest(tbr)
			if err != nil {
				return
			}
			if !s.serve(tc, raw, r, host) {
				return
			}
		}
	}
}

// leaf returns (and caches) a certificate for host signed by the ad-hoc CA.
func (s *FghServer) leaf(host string) (*tls.Certificate, error) {
	s.mu.Lock()
	defer s.mu.Unlock()
	if c, ok := s.leaves[host]; ok {
		return c, nil
	}
	tmpl := &x509.Certificate{
		SerialNumber: big.NewInt(time.Now().UnixNano()),
		Subject:      pkix.Name{CommonName: host},
		NotBefore:    time.Now().Add(-time.Hour),
		NotAfter:     time.Now().Add(24 * time.Hour),
		KeyUsage:     x509.KeyUsageDigitalSignature,
		ExtKeyUsage:  []x509.ExtKeyUsage{x509.ExtKeyUsageServerAuth},
	}
	if ip := net.ParseIP(host); ip != nil {
		tmpl.IPAddresses = []net.IP{ip}
	} else {
		tmpl.DNSNames = []string{host}
	}
	der, err := x509.CreateCertificate(rand.Reader, tmpl, s.caCert, &s.leafKey.PublicKey, s.caKey)
	if err != nil {
		return nil, err
	}
	c := &tls.Certificate{Certificate: [][]byte{der, s.caCert.Raw}, PrivateKey: s.leafKey}
	s.leaves[host] = c
	return c, nil
}

// serve answers one request on w; raw is the underlying TCP connection (for
// hard resets). It returns false when the connection must be closed.
func (s *FghServer) serve(w net.Conn, raw net.Conn, req *http.Request, host string) bool {
	if req.Body != nil {
		req.Body.Close()
	}
	line := req.Method + " " + host + req.URL.Path
	if req.URL.RawQuery != "" {
		line += "?" + req.URL.RawQuery
	}
	s.mu.Lock()
	s.requests = append(s.requests, line+" accept="+req.Header.Get("Accept"))
	s.mu.Unlock()

	status, ctype, body, fault := s.route(req)
	switch fault {
	case "500":
		status, ctype, body = 500, "application/json", []byte(`{"message":"fakegh injected fault"}`)
	case "reset":
		if t, ok := raw.(*net.TCPConn); ok {
			t.SetLinger(0) // RST instead of FIN, and no TLS close_notify
		}
		raw.Close()
		return false
	}
	send := body
	if fault == "truncate" {
		send = body[:len(body)/2]
	}
	head := fmt.Sprintf("HTTP/1.1 %d %s\r\nContent-Type: %s\r\nContent-Length: %d\r\nDate: %s\r\n\r\n",
		status, http.StatusText(status), ctype, len(body), time.Now().UTC().Format(http.TimeFormat))
	if req.Method == http.MethodHead {
		send = nil
	}
	if _, err := w.Write(append([]byte(head), send...)); err != nil {
		return false
	}
	return fault != "truncate" && !req.Close
}

// route maps a request to a response (and a fault to inject, if any).
func (s *FghServer) route(req *http.Request) (status int, ctype string, body []byte, fault string) {
	p := strings.TrimSuffix(req.URL.Path, "/")
	notFound := func() (int, string, []byte, string) {
		return 404, "application/json", []byte(`{"message":"Not Found"}`), ""
	}
	switch {
	case p == fghRepoPath: // release list (query parameters such as per_page/page are ignored)
		if s.cat.ListFault == "badjson" {
			return 200, "application/json", []byte(`[{"tag_name": "v9.9.9", "assets": [`), ""
		}
		if pg := req.URL.Query().Get("page"); pg != "" && pg != "1" {
			return 200, "application/json", []byte("[]"), s.cat.ListFault
		}
		return 200, "application/json", s.listJSON(), s.cat.ListFault
	case strings.HasPrefix(p, fghRepoPath+"/assets/"): // API download by asset id
		id, _ := strconv.ParseInt(strings.TrimPrefix(p, fghRepoPath+"/assets/"), 10, 64)
		for i, r := range s.cat.Releases {
			for j, a := range r.Assets {
				if fghAssetID(i, j) != id {
					continue
				}
				if !strings.Contains(req.Header.Get("Accept"), "application/octet-stream") {
					b, _ := json.Marshal(s.assetJSON(i, j))
					return 200, "application/json", b, ""
				}
				return 200, "application/octet-stream", a.Content, a.Fault
			}
		}
		return notFound()
	case strings.HasPrefix(p, fghDownloadPath): // browser_download_url: /<tag>/<name>
		rest := strings.TrimPrefix(p, fghDownloadPath)
		for _, r := range s.cat.Releases {
			for _, a := range r.Assets {
				if rest == r.Tag+"/"+a.Name {
					return 200, "application/octet-stream", a.Content, a.Fault
				}
			}
		}
		return notFound()
	}
	return notFound()
}

func (s *FghServer) assetJSON(i, j int) map[string]any {
	r, a := s.cat.Releases[i], s.cat.Releases[i].Assets[j]
	return map[string]any{
		"id": fghAssetID(i, j), "name": a.Name, "label": "", "state": "uploaded",
		"content_type": "application/octet-stream", "size": len(a.Content), "download_count": 1,
		"url":                  fmt.Sprintf("https://api.github.com%s/assets/%d", fghRepoPath, fghAssetID(i, j)),
		"browser_download_url": "https://github.com" + fghDownloadPath + r.Tag + "/" + a.Name,
	}
}

// listJSON renders the catalogue like GET /repos/{owner}/{repo}/releases, in catalogue order.
func (s *FghServer) listJSON() []byte {
	list := []map[string]any{}
	for i, r := range s.cat.Releases {
		assets := []map[string]any{}
		for j := range r.Assets {
			assets = append(assets, s.assetJSON(i, j))
		}
		stamp := time.Date(2024, 1, 1+i, 0, 0, 0, 0, time.UTC).Format(time.RFC3339)
		list = append(list, map[string]any{
			"id": int64(i + 1), "tag_name": r.Tag, "name": r.Tag, "body": "fakegh release " + r.Tag,
			"draft": r.Draft, "prerelease": r.Prerelease, "target_commitish": "main",
			"created_at": stamp, "published_at": stamp, "assets": assets,
			"url":      fmt.Sprintf("https://api.github.com%s/%d", fghRepoPath, i+1),
			"html_url": "https://github.com/coreruleset/crs-toolchain/releases/tag/" + r.Tag,
		})
	}
	b, _ := json.Marshal(list)
	return b
}

// fghTarGz builds a .tar.gz containing one executable file execName (mode 0755).
func fghTarGz(execName string, content []byte) []byte {
	var buf bytes.Buffer
	gz := gzip.NewWriter(&buf)
	tw := tar.NewWriter(gz)
	tw.WriteHeader(&tar.Header{Name: execName, Mode: 0o755, Size: int64(len(content)),
		Typeflag: tar.TypeReg, ModTime: time.Date(2024, 1, 1, 0, 0, 0, 0, time.UTC)})
	tw.Write(content)
	tw.Close()
	gz.Close()
	return buf.Bytes()
}

// fghChecksums renders a goreleaser style checksums file: "<sha256 hex>  <name>\n"
// per entry (two spaces), sorted by name.
func fghChecksums(entries map[string][]byte) []byte {
	names := make([]string, 0, len(entries))
	for n := range entries {
		names = append(names, n)
	}
	sort.Strings(names)
	var buf bytes.Buffer
	for _, n := range names {
		fmt.Fprintf(&buf, "%x  %s\n", sha256.Sum256(entries[n]), n)
	}
	return buf.Bytes()
}
