module vrf

go 1.23
