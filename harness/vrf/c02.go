package main

import (
	"encoding/json"
	"fmt"
	"os"
	"regexp"
	"regexp/syntax"
	"sort"
	"strings"
	"sync"
	"sync/atomic"
	"time"
)

func init() { register("C02", checkC02) }

var rePlainWords = regexp.MustCompile(`^[a-z|\n]+$`)

// C02: the printed regex can be pasted between the quotes of a SecRule line.
func checkC02(c *Ctx) error {
	lemmaLen, lines, keepMod := "4", "3", uint64(1)
	if c.Tier == "thorough" {
		lemmaLen, lines, keepMod = "5", "4", 4
	}
	// 1. the lemma that ties the scanner grammar to the SecRule reader
	lem, err := c.runTLC(TLCRun{Module: "MC_OutputText", Seed: c.Seed, Timeout: 40 * time.Minute, Workers: 8,
		Constants: map[string]string{"Mode": `= "lemma"`, "MaxLen": "= " + lemmaLen}, Invs: []string{"Lemma"}}, nil)
	if err != nil {
		return fmt.Errorf("lemma of OutputText (spec-level, says nothing about the code): %v", err)
	}
	// 1b. the clean-up passes as an exact transcription (see cleanupConformance)
	cleanLen := "4"
	if c.Tier == "thorough" {
		cleanLen = "6"
	}
	cl, err := cleanupConformance(c, cleanLen)
	if err != nil {
		return err
	}
	lem.Distinct += cl.Distinct
	lem.Generated += cl.Generated
	// 2. programs over the hygiene pool, compiled by the real code (language-checked as in C01)
	rp, err := c.newAsmReplayer(keepMod, 25)
	if err != nil {
		return err
	}
	var mu sync.Mutex
	outs := map[string][]string{} // output -> one program that produced it
	rp.onOutput = func(cs *AsmCase, out string) {
		mu.Lock()
		if _, ok := outs[out]; !ok {
			outs[out] = cs.Lines
		}
		mu.Unlock()
	}
	// what the command prints is the library result byte for byte: programs with a percent sign always
	// go through the CLI binary too (the library result alone would not show a formatted print)
	rp.cliAlways = func(cs *AsmCase) bool { return strings.Contains(strings.Join(cs.Lines, "\n"), "%") }
	rp.nontriv = func(cs *AsmCase) bool {
		t := strings.Join(cs.Lines, "\n")
		return strings.ContainsAny(t, "\"\\") || strings.Contains(t, "##!+")
	}
	ex, err := c.runTLC(TLCRun{Module: "MC_C01", Seed: c.Seed, Timeout: 40 * time.Minute,
		Constants: map[string]string{"Sigma": "<- MCSigma", "N": "= 3", "LeafD": "<- MCLeafD", "Deviations": "<- MCDev", "Cfg": "<- MCCfg",
			"PoolSel": `= "hyg"`, "CfgSel": `= "absent"`, "MaxLines": "= " + lines, "MaxDepth": "= 1", "Export": "= TRUE", "Theorem": "= FALSE"},
		Invs: []string{"Compiles", "ExportCase"}}, rp.onCase)
	ferr := rp.finish()
	if err != nil {
		return err
	}
	if ferr != nil {
		return ferr
	}
	// 3. every distinct output is an "execution" validated by TLC against OutputText!Scan
	texts := make([]string, 0, len(outs))
	for t := range outs {
		texts = append(texts, t)
	}
	sort.Strings(texts)
	var scanExtra []string
	// what `generate` puts on stdout is the expression and nothing else, at every log level
	// (a sample of the programs, each at two other levels)
	lvRoot, err := c.newSandbox("loglevel")
	if err != nil {
		return err
	}
	os.MkdirAll(lvRoot+"/regex-assembly", 0o755)
	var lvRuns int64
	stepLv := len(texts)/40 + 1
	parallel((len(texts)+stepLv-1)/stepLv, 8, func(k int) {
		t := texts[k*stepLv]
		prog := strings.Join(outs[t], "\n") + "\n"
		for _, lv := range []string{"trace", "debug", "disabled"} {
			r := c.runCLI(lvRoot, prog, "-l", lv, "-d", lvRoot, "regex", "generate", "-")
			atomic.AddInt64(&lvRuns, 1)
			if r.Exit != 0 || r.Stdout != t {
				c.violation("output-text", map[string]any{"why": "with log level " + lv + " the standard output of generate is not the expression alone", "program": outs[t],
					"expression": t, "stdout": r.Stdout, "exit": r.Exit})
				return
			}
		}
	})
	c.Cov["runs_at_other_log_levels"] = lvRuns
	// non-ASCII: the programs that consist of plain words, with a non-ASCII letter in place of `a`
	// (TLA+ strings are ASCII; the substitution is the same on every line, so the shape is the model's)
	var uni int64
	for _, t := range texts {
		prog := strings.Join(outs[t], "\n")
		if !rePlainWords.MatchString(prog) || !strings.Contains(prog, "a") || uni >= 60 {
			continue
		}
		uni++
		for _, ch := range []string{"\u00e9", "\u00df"} {
			r := c.runCLI(lvRoot, strings.ReplaceAll(prog, "a", ch)+"\n", "-d", lvRoot, "regex", "generate", "-")
			if r.Exit != 0 {
				continue
			}
			for _, b := range []byte(r.Stdout) {
				if b < 0x20 || b > 0x7e {
					c.violation("output-text", map[string]any{"why": "the output contains a byte that is not printable ASCII (non-ASCII characters must appear as hex escapes)", "program": strings.ReplaceAll(prog, "a", ch), "output": r.Stdout})
					break
				}
			}
			scanExtra = append(scanExtra, r.Stdout)
		}
	}
	c.Cov["programs_with_non_ascii_letters"] = uni
	// a prefix or suffix line that makes the whole expression invalid: generate must refuse it or
	// print something that parses
	for _, prog := range []string{"##!^ (\nb\n", "##!$ )\na\n", "##!^ x++\na\n", "##!$ +*\na\n", "##!^ (?!a)\nb\n", "##!^ [\na\n"} {
		r := c.runCLI(lvRoot, prog, "-d", lvRoot, "regex", "generate", "-")
		if r.Exit == 0 {
			if _, err := syntax.Parse(r.Stdout, syntax.Perl); err != nil {
				c.violation("output-text", map[string]any{"why": "generate succeeds but the output is not an RE2 expression: " + err.Error(), "program": prog, "output": r.Stdout})
			}
		}
	}
	// Go-side part of the statement: one line, parses as an RE2 expression
	scanList := append([]string{}, scanExtra...)
	for _, t := range texts {
		if strings.ContainsAny(t, "\n\r") {
			c.violation("output-text", map[string]any{"why": "output is not a single line", "output": t, "program": outs[t]})
			continue
		}
		if _, err := syntax.Parse(t, syntax.Perl); err != nil {
			c.violation("output-text", map[string]any{"why": "output is not an RE2 expression: " + err.Error(), "output": t, "program": outs[t]})
			continue
		}
		// the text itself and its repair for the listed known finding
		scanList = append(scanList, t, strings.ReplaceAll(t, `\x5c"`, `\x5c\"`))
	}
	var nd strings.Builder
	for _, t := range scanList {
		b, _ := json.Marshal(map[string]string{"t": t})
		nd.Write(b)
		nd.WriteByte('\n')
	}
	verdicts := make([]string, len(scanList))
	closes := make([]bool, len(scanList))
	val, err := c.runTLC(TLCRun{Module: "MC_OutputText", Seed: c.Seed, Timeout: 40 * time.Minute, Workers: 1,
		Constants:  map[string]string{"Mode": `= "validate"`, "MaxLen": "= 0"},
		Invs:       []string{"Verdict"},
		ExtraFiles: map[string]string{"outs.ndjson": nd.String()}}, func(raw []byte) error {
		var v struct {
			I      int    `json:"i"`
			V      string `json:"v"`
			Closes bool   `json:"closes"`
		}
		if err := mustJSON(raw, &v); err != nil {
			return err
		}
		if v.I >= 1 && v.I <= len(verdicts) {
			verdicts[v.I-1] = v.V
			closes[v.I-1] = v.Closes
		}
		return nil
	})
	if err != nil {
		return err
	}
	validated := 0
	for i := 0; i+1 < len(scanList); i += 2 {
		t := scanList[i]
		if verdicts[i] == "" {
			return fmt.Errorf("TLC printed no verdict for output %q", t)
		}
		validated++
		if verdicts[i] == "ok" && !closes[i] {
			continue
		}
		if verdicts[i] == "quote" && verdicts[i+1] == "ok" && strings.Contains(t, `\x5c"`) &&
			c.knownFinding("quote-after-hex-backslash", fmt.Sprintf("%q from %q", t, outs[t])) {
			continue
		}
		c.violation("output-text", map[string]any{"why": "output breaks rule `" + verdicts[i] + "` of OutputText!Scan", "output": t, "program": outs[t], "operand_closes_early": closes[i]})
	}
	for i, t := range texts {
		if i < 3 {
			c.addSample(map[string]any{"program": outs[t], "real_output": t})
		}
	}
	c.Cov["states"] = lem.Distinct + ex.Distinct + val.Distinct
	c.Cov["transitions"] = lem.Generated + ex.Generated + val.Generated
	c.Cov["lemma_states"] = lem.Distinct
	c.Cov["programs_replayed"] = rp.replayed
	c.Cov["distinct_outputs"] = len(texts)
	c.Cov["traces_validated_against_impl"] = validated
	c.Cov["exhaustive"] = keepMod == 1
	c.Cov["rule"] = fmt.Sprintf("every well-formed program of <= %s lines over the hygiene pool of MC_C01 (quotes, escaped quotes, literal and hex backslashes, quote after backslash, \\s classes incl. a range starting at space, anchors and dot next to quotes, flag lines) is compiled by the real code; each distinct output text is validated by TLC against OutputText!Scan (printable, quotes escaped, no \\\\, \\s with \\x0b, flags only as sorted leading group) and parsed with regexp/syntax; the lemma Scan=ok => operand never closes early is model-checked on all strings up to length %s over 14 characters; non-trivial = the program contains a quote, a backslash or a flags line", lines, lemmaLen)
	c.Assumptions = append(c.Assumptions, "ModSecurity's SecRule reader ends a quoted operand at a double quote that is not preceded by a backslash")
	c.Summary = fmt.Sprintf("lemma_states=%d programs=%d outputs=%d", lem.Distinct, rp.replayed, len(texts))
	return nil
}

// cleanupConformance: the clean-up passes as an exact transcription.  Every text up to the bound is
// pushed through the real passes (hook operators.VerifCleanup) and compared byte for byte with
// Cleanup!Pipeline; an out-of-range access of the transcription must be a runtime panic of the
// code and vice versa.  TLC also checks NoCrash, Hygiene and Terminates on every text.
func cleanupConformance(c *Ctx, cleanLen string) (*TLCStats, error) {
	cpool, err := c.newInprocPool()
	if err != nil {
		return nil, err
	}
	croot, _ := c.newSandbox("cleanroot")
	type cleanCase struct {
		T   string `json:"t"`
		Out string `json:"out"`
		WF  bool   `json:"wf"`
	}
	cch := make(chan cleanCase, 4096)
	var cwg sync.WaitGroup
	var cleanN, cleanBad int64
	for w := 0; w < 8; w++ {
		cwg.Add(1)
		go func() {
			defer cwg.Done()
			wk := cpool.get()
			defer cpool.put(wk)
			for cc := range cch {
				if atomic.LoadInt64(&cleanBad) > 10 {
					continue // enough counterexamples; drain the queue
				}
				rep, err := wk.runMode(croot, cc.T, "cleanup")
				if err == nil && rep.Hung {
					// a busy machine must not become a verdict: once more, alone, with four times the period
					w2 := &inprocWorker{bin: wk.bin, env: wk.env, watchdog: 4 * inprocWatchdog}
					time.Sleep(2 * time.Second)
					rep, err = w2.runMode(croot, cc.T, "cleanup")
					w2.stop()
				}
				if err == nil && rep.Hung {
					if atomic.AddInt64(&cleanBad, 1) <= 10 {
						c.violation("cleanup", map[string]any{"why": fmt.Sprintf("the clean-up passes did not return within %v on this text (Cleanup!Terminates: at most Len + 1 rounds)", inprocWatchdog), "text": cc.T, "spec": cc.Out})
					}
					continue
				}
				if err != nil || rep.Died {
					c.infra(fmt.Errorf("clean-up worker failed on %q: %v", cc.T, err))
					continue
				}
				atomic.AddInt64(&cleanN, 1)
				crashed := rep.Panic != ""
				if crashed != (cc.Out == "CRASH") || (!crashed && rep.Out != cc.Out) {
					if atomic.AddInt64(&cleanBad, 1) <= 10 {
						c.violation("cleanup", map[string]any{"why": "the clean-up passes differ from their transcription (Cleanup!Pipeline)", "text": cc.T,
							"spec": cc.Out, "real": rep.Out, "real_panic": rep.Panic, "balanced_input": cc.WF})
					}
				}
			}
		}()
	}
	onClean := func(raw []byte) error {
		var cc cleanCase
		if err := mustJSON(raw, &cc); err != nil {
			return err
		}
		cch <- cc
		return nil
	}
	cl, err := c.runTLC(TLCRun{Module: "MC_Cleanup", Seed: c.Seed, Timeout: 40 * time.Minute, Workers: 8,
		Constants: map[string]string{"MaxLen": "= " + cleanLen, "Export": "= TRUE", "Mode": `= "chars"`}, Invs: []string{"NoCrash", "Hygiene", "Terminates", "ExportCase"}}, onClean)
	if err == nil {
		tokLen := "3"
		if c.Tier == "thorough" {
			tokLen = "4"
		}
		var cl2 *TLCStats
		cl2, err = c.runTLC(TLCRun{Module: "MC_Cleanup", Seed: c.Seed, Timeout: 40 * time.Minute, Workers: 8,
			Constants: map[string]string{"MaxLen": "= " + tokLen, "Export": "= TRUE", "Mode": `= "tokens"`}, Invs: []string{"NoCrash", "Hygiene", "Terminates", "ExportCase"}}, onClean)
		if err == nil {
			cl.Distinct += cl2.Distinct
			cl.Generated += cl2.Generated
		}
	}
	close(cch)
	cwg.Wait()
	cpool.close()
	if err != nil {
		return nil, fmt.Errorf("model of the clean-up passes (spec-level): %v", err)
	}
	c.Cov["cleanup_texts_compared"] = cleanN
	return cl, nil
}
