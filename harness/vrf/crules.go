package main

import (
	"encoding/json"
	"fmt"
	"os"
	"path/filepath"
	"strings"
	"sync"
	"sync/atomic"
	"time"
)

func init() {
	register("C11", func(c *Ctx) error { return checkRules(c, false) })
	register("C12", func(c *Ctx) error { return checkRules(c, true) })
}

// RulesCase is one (rules file, target, generated regex) exported by MC_Rules.
type RulesCase struct {
	File   string `json:"file"`
	Rule   string `json:"rule"`
	Chain  int    `json:"chain"`
	Regex  string `json:"regex"`
	Err    string `json:"err"`
	After  string `json:"after"`
	Stored string `json:"stored"`
	Off    int    `json:"off"`
	TLine  int    `json:"tline"`
	NRules int    `json:"nrules"`
	CRLF   bool   `json:"crlf"`
}

// assembly sources that make `regex generate` print the regexes of MC_Rules!GPool
var gSources = map[string]string{
	`foo`:       "foo\n",
	`a\"b`:      "a\"b\n",
	`a\"@rx b`:  "a\"@rx b\n",
	`x\" \x5cy`: "x\" \\\\y\n",
	`a$1b`:      "a$1b\n",
	`(?i)[ab]`:  "##!+ i\na|b\n",
	`x y`:       "x y\n",
	`ab `:       "ab[ ]\n",
	`ld1`:       "ld1\n",
	``:          "##! nothing but a comment\n",
}

const rulesFileName = "rules/REQUEST-932-APPLICATION-ATTACK-RCE.conf"

func (rc *RulesCase) arg() string {
	if rc.Chain > 0 {
		return fmt.Sprintf("%s-chain%d", rc.Rule, rc.Chain)
	}
	return rc.Rule
}

func checkRules(c *Ctx, roundTrip bool) error {
	items, thItems, keepMod := 2, 2, uint64(1)
	if c.Tier == "thorough" {
		items, thItems, keepMod = 3, 3, 4
	}
	consts := func(n int, export, theorem bool) map[string]string {
		return map[string]string{"MaxItems": fmt.Sprintf("= %d", n), "Export": "= " + tlaBool(export), "Theorem": "= " + tlaBool(theorem)}
	}
	// the generated regexes of the pool must really be what `regex generate` prints
	root0, err := c.newSandbox("gpool")
	if err != nil {
		return err
	}
	os.MkdirAll(root0+"/regex-assembly", 0o755)
	for g, src := range gSources {
		res := c.runCLI(root0, src, "-d", root0, "regex", "generate", "-")
		if res.Exit != 0 || res.Stdout != g {
			return fmt.Errorf("pool precondition: generate prints %q (exit %d) for the source of %q; the vocabulary of MC_Rules no longer matches the code under test", res.Stdout, res.Exit, g)
		}
	}
	th, err := c.runTLC(TLCRun{Module: "MC_Rules", Seed: c.Seed, Timeout: 30 * time.Minute,
		Constants: consts(thItems, false, true), Invs: []string{"Theorems"}}, nil)
	if err != nil {
		return fmt.Errorf("design theorems of RulesFile (spec-level, says nothing about the code): %v", err)
	}
	var mu sync.Mutex
	var cases []RulesCase
	seen := map[string]bool{}
	var enumerated int64
	ex, err := c.runTLC(TLCRun{Module: "MC_Rules", Seed: c.Seed, Timeout: 30 * time.Minute,
		Constants: consts(items, true, false), Invs: []string{"ExportCase"}}, func(raw []byte) error {
		var rc RulesCase
		if err := mustJSON(raw, &rc); err != nil {
			return err
		}
		atomic.AddInt64(&enumerated, 1)
		key := rc.File + "\x00" + rc.arg() + "\x00" + rc.Regex
		if keepMod > 1 && caseHash([]string{key}, c.Seed)%keepMod != 0 {
			return nil
		}
		mu.Lock()
		if !seen[key] {
			seen[key] = true
			cases = append(cases, rc)
		}
		mu.Unlock()
		return nil
	})
	if err != nil {
		return err
	}
	var cli int64
	parallel(len(cases), 16, func(i int) {
		rulesReplay(c, fmt.Sprintf("r%d", i), &cases[i], roundTrip, &cli)
	})
	for i := range cases {
		rc := &cases[i]
		if i < 3 {
			c.addSample(map[string]any{"rules_file": rc.File, "target": rc.arg(), "generated_regex": rc.Regex, "spec_error": rc.Err, "spec_file_after_update": rc.After})
		}
		nt := rc.NRules >= 2 || rc.Chain > 0
		if roundTrip {
			nt = rc.Err == "" && strings.ContainsAny(rc.Regex, "\"$ \\")
		}
		if nt {
			c.markNontrivial(hashOf([]string{rc.File, rc.arg(), rc.Regex}))
		}
	}
	c.countEval(len(cases))
	c.Cov["states"] = th.Distinct + ex.Distinct
	c.Cov["transitions"] = th.Generated + ex.Generated
	c.Cov["theorem_states"] = th.Distinct
	c.Cov["cases_enumerated"] = enumerated
	c.Cov["traces_validated_against_impl"] = len(cases)
	c.Cov["cli_executions"] = cli
	c.Cov["recorded_target_lines_validated"] = atomic.LoadInt64(&updTraces)
	c.Cov["exhaustive"] = keepMod == 1
	if roundTrip {
		c.Cov["rule"] = fmt.Sprintf("rules files of <= %d items over the 16-item vocabulary of MC_Rules x targets (7 ids x chain 0..3) x one regex of the hazard pool (10 regexes, one ending in a blank, one a substring of a stored operand, one empty) per target; history compare / update / compare / update / generate / edit one operand byte / compare (text and github mode) / append one blank to the operand / compare / update --all / compare --all on the real binary, each step compared with the spec; non-trivial = update succeeds and the regex contains a quote, $, blank or backslash", items)
	} else {
		c.Cov["rule"] = fmt.Sprintf("rules files of <= %d items over the 16-item vocabulary of MC_Rules x targets (7 ids x chain 0..3) x one regex of the hazard pool per target; after `regex update` the whole tree is compared with the spec: rules file bytes = Bytes(Update(..)), nothing else changed, failures leave everything untouched; non-trivial = file has >= 2 rules or the target is a chained link", items)
	}
	c.Summary = fmt.Sprintf("theorem_states=%d cases=%d cli=%d", th.Distinct, len(cases), cli)
	return nil
}

func rulesReplay(c *Ctx, name string, rc *RulesCase, roundTrip bool, cli *int64) {
	root, err := c.newSandbox(name)
	if err != nil {
		return
	}
	defer os.RemoveAll(root)
	src, ok := gSources[rc.Regex]
	if !ok {
		c.violation("harness", map[string]any{"why": "regex not in the pool table", "regex": rc.Regex})
		return
	}
	t := Tree{
		"regex-assembly/" + rc.arg() + ".ra":       src,
		rulesFileName:                              rc.File,
		"rules/REQUEST-933-APPLICATION-OTHER.conf": "SecRule ARGS \"@rx keep\" \\\n    \"id:933100,\\\n    block\"\n",
		"rules/notes.txt":                          "id:" + rc.Rule + " \"@rx decoy\" \\\n",
		// a second, up-to-date rule that `--all` visits after the target
		"regex-assembly/942100.ra": "keep\n",
		// .ra files that are not the assembly file of a rule: ignored by every --all walk; one sorts
		// before all rule files, one between a rule's chain files and its main file
		"regex-assembly/.gitattributes":           "*.ra text\n", // a hidden regular file: the --all walks go on
		"regex-assembly/100000-draft.ra":          "draft\n",
		"regex-assembly/" + rc.Rule + "-old.ra":   "stale\n",
		"rules/REQUEST-942-APPLICATION-SQLI.conf": "SecRule ARGS \"@rx keep\" \\\n    \"id:942100,\\\n    block\"\n",
		"tests/regression/tests/x/932100.yaml":    "tests:\n  - test_id: 7\n",
	}
	if err := writeTree(root, t); err != nil {
		return
	}
	before, _ := snapshot(root)
	arg := rc.arg()
	run := func(args ...string) CLIResult {
		atomic.AddInt64(cli, 1)
		return c.runCLI(root, "", append([]string{"-d", root}, args...)...)
	}
	bad := func(why string, extra map[string]any) {
		d := map[string]any{"rules_file": rc.File, "target": arg, "generated_regex": rc.Regex, "spec_error": rc.Err, "spec_after": rc.After, "why": why}
		for k, v := range extra {
			d[k] = v
		}
		c.violation("rules", d)
	}
	onlyRulesFile := func(a, b Tree) []string {
		var other []string
		for _, d := range diffTrees(a, b) {
			if d != "changed:"+rulesFileName {
				other = append(other, d)
			}
		}
		return other
	}
	if roundTrip {
		// compare before anything was written
		r0 := run("regex", "compare", arg)
		if s, _ := snapshot(root); len(diffTrees(before, s)) > 0 {
			bad("compare wrote to the tree", map[string]any{"diff": diffTrees(before, s)})
		}
		if rc.Err == "" {
			same := rc.Stored == rc.Regex
			if (r0.Exit == 0) != same || strings.Contains(r0.Stdout, "has not changed") != same {
				bad(fmt.Sprintf("compare before update: stored %q generated %q but exit=%d stdout=%q", rc.Stored, rc.Regex, r0.Exit, firstLine(r0.Stdout)), nil)
			}
		} else if r0.Exit == 0 {
			bad(fmt.Sprintf("compare must fail (%s) but exit status is 0", rc.Err), map[string]any{"stdout": firstLine(r0.Stdout)})
		}
	}
	// Direction B: the line index the search settles on is recorded by the hook and must be the
	// target line of the specification (RulesFile!FindTarget)
	tf := filepath.Join(c.Scratch, name+".trace")
	atomic.AddInt64(cli, 1)
	r1 := c.runCLIEnv(root, "", []string{"CRS_VERIF_TRACE=" + tf}, 20*time.Second, "-d", root, "regex", "update", arg)
	if idx, ok := updTargetFromTrace(tf); ok {
		want := rc.TLine
		if want < 0 {
			want = -1
		}
		if idx != want && !(want == -1 && rc.Err != "") {
			bad(fmt.Sprintf("the rule line search settled on line index %d, the specification on %d", idx, want), nil)
		} else {
			atomic.AddInt64(&updTraces, 1)
		}
	}
	os.Remove(tf)
	after1, _ := snapshot(root)
	if rc.Err != "" {
		if r1.Exit == 0 {
			bad(fmt.Sprintf("update must fail (%s) but exit status is 0", rc.Err), map[string]any{"real_after": after1[rulesFileName]})
		}
		if d := diffTrees(before, after1); len(d) > 0 {
			bad(fmt.Sprintf("update failed or had to fail (%s) but the tree changed", rc.Err), map[string]any{"diff": d, "real_after": after1[rulesFileName]})
		}
		return
	}
	if r1.Exit != 0 {
		bad(fmt.Sprintf("update failed with exit %d", r1.Exit), map[string]any{"stderr": lastLine(r1.Stderr)})
		return
	}
	if after1[rulesFileName] != rc.After {
		bad("rules file after update differs from the spec (only the addressed operand may change)", map[string]any{"real_after": after1[rulesFileName]})
		return
	}
	if o := onlyRulesFile(before, after1); len(o) > 0 {
		bad("update changed something other than the rules file", map[string]any{"diff": o})
	}
	if !roundTrip {
		return
	}
	r2 := run("regex", "compare", arg)
	if r2.Exit != 0 || !strings.Contains(r2.Stdout, "has not changed") {
		bad(fmt.Sprintf("compare right after update reports a change (exit %d, %q)", r2.Exit, firstLine(r2.Stdout)), nil)
	}
	r3 := run("regex", "update", arg)
	after3, _ := snapshot(root)
	if r3.Exit != 0 || len(diffTrees(after1, after3)) > 0 {
		bad("a second update is not a no-op", map[string]any{"real_after": after3[rulesFileName]})
	}
	r4 := run("regex", "generate", arg)
	if r4.Exit != 0 || r4.Stdout != rc.Regex {
		bad(fmt.Sprintf("generate prints %q, the operand written is %q", r4.Stdout, rc.Regex), nil)
	}
	if rc.Off+len(rc.Regex) <= len(rc.After) && rc.After[rc.Off:rc.Off+len(rc.Regex)] == rc.Regex {
		// edit one byte of the stored operand (an empty operand gets one byte instead)
		b := []byte(rc.After)
		if len(rc.Regex) == 0 {
			b = []byte(rc.After[:rc.Off] + "q" + rc.After[rc.Off:])
		} else {
			pos := rc.Off + (len(rc.Regex)-1)/2
			if b[pos] == 'q' {
				b[pos] = 'z'
			} else {
				b[pos] = 'q'
			}
		}
		os.WriteFile(root+"/"+rulesFileName, b, 0o644)
		edited, _ := snapshot(root)
		r5 := run("regex", "compare", arg)
		if r5.Exit == 0 || !strings.Contains(r5.Stdout, "has changed") {
			bad(fmt.Sprintf("operand differs in one byte but compare says exit=%d %q", r5.Exit, firstLine(r5.Stdout)), map[string]any{"edited_file": string(b)})
		}
		r6 := run("-o", "github", "regex", "compare", arg)
		if r6.Exit == 0 {
			bad("operand differs in one byte but compare in github mode exits 0", map[string]any{"edited_file": string(b)})
		}
		r7 := run("-o", "github", "regex", "compare", "--all")
		if r7.Exit == 0 {
			bad("operand differs in one byte but compare --all in github mode exits 0", map[string]any{"edited_file": string(b), "stdout": r7.Stdout})
		}
		if s, _ := snapshot(root); len(diffTrees(edited, s)) > 0 {
			bad("compare wrote to the tree", map[string]any{"diff": diffTrees(edited, s)})
		}
		// one byte MORE: a blank appended to the stored operand
		os.WriteFile(root+"/"+rulesFileName, []byte(rc.After[:rc.Off+len(rc.Regex)]+" "+rc.After[rc.Off+len(rc.Regex):]), 0o644)
		r5b := run("regex", "compare", arg)
		if r5b.Exit == 0 || !strings.Contains(r5b.Stdout, "has changed") {
			bad(fmt.Sprintf("the stored operand has one blank more at its end but compare says exit=%d %q", r5b.Exit, firstLine(r5b.Stdout)), nil)
		}
		os.WriteFile(root+"/"+rulesFileName, b, 0o644)
		// the same round trip through the --all forms (Toolchain!UpdateAll is the fold of Update):
		// update --all repairs the edited operand, compare --all then reports nothing
		r8 := run("regex", "update", "--all")
		after8, _ := snapshot(root)
		if r8.Exit != 0 || after8[rulesFileName] != rc.After || len(onlyRulesFile(edited, after8)) > 0 {
			bad(fmt.Sprintf("update --all after a one-byte edit does not restore the generated operand (exit %d)", r8.Exit), map[string]any{"real_after": after8[rulesFileName], "diff": diffTrees(edited, after8)})
		}
		r9 := run("-o", "github", "regex", "compare", "--all")
		if r9.Exit != 0 {
			bad("compare --all in github mode fails right after update --all", map[string]any{"stdout": r9.Stdout})
		}
	} else {
		c.violation("harness", map[string]any{"why": "operand offset of the spec does not point at the regex", "case": rc})
	}
}

var updTraces int64

// updTargetFromTrace returns the index of the first upd.target event.
func updTargetFromTrace(path string) (int, bool) {
	b, err := os.ReadFile(path)
	if err != nil {
		return 0, false
	}
	for _, l := range strings.Split(string(b), "\n") {
		if !strings.Contains(l, `"upd.target"`) {
			continue
		}
		var ev struct {
			Index int `json:"index"`
		}
		if json.Unmarshal([]byte(l), &ev) == nil {
			return ev.Index, true
		}
	}
	return 0, false
}

func firstLine(s string) string {
	s = strings.TrimSpace(s)
	if i := strings.Index(s, "\n"); i >= 0 {
		s = s[:i]
	}
	if len(s) > 200 {
		s = s[:200]
	}
	return s
}
