package main

import (
	"crypto/sha256"
	"encoding/hex"
	"encoding/json"
	"fmt"
	"os"
	"os/exec"
	"path/filepath"
	"sort"
	"strings"
	"sync"
)

// verifRoot is the directory of the verification framework (spec/, evidence/, replays/, .scratch/).
// bin/check sets VERIF_HOME to the checkout it runs from.
var verifRoot = envOr("VERIF_HOME", "/verif")

// Ctx carries everything one check run needs.
type Ctx struct {
	timeoutRetries int64 // CLI runs that were repeated with a longer period after a timeout
	ID             string
	Tier           string
	Seed           int64
	Replay         string
	Repo           string // tree under test ($VERIF_REPO, default /repo)
	Bin            string // CLI built from Repo with -tags verif
	Scratch        string // per-run scratch directory under /verif/.scratch
	Keep           bool
	Wall           float64
	Summary        string

	Level       string
	Cov         map[string]any
	Assumptions []string

	mu           sync.Mutex
	Violations   []string // replay file paths
	knownPrinted []string
	knownSeen    map[string]bool
	findings     []Finding
	samples      []any
	nontrivial   map[string]bool
	evaluations  int64
	infraErr     error
}

// Finding is one entry of /verif/known_findings.json.
type Finding struct {
	Status      string `json:"status"` // "known" or "fixed"
	Property    string `json:"property"`
	Key         string `json:"key"` // deviation / signature name the checks match on
	CallSite    string `json:"call_site,omitempty"`
	Input       string `json:"minimal_input,omitempty"`
	Commit      string `json:"commit,omitempty"`
	Description string `json:"description"`
}

func newCtx(id, tier string, seed int64, replay string) (*Ctx, error) {
	c := &Ctx{ID: id, Tier: tier, Seed: seed, Replay: replay,
		Repo: envOr("VERIF_REPO", "/repo"), Level: "model_checking",
		Cov: map[string]any{}, knownSeen: map[string]bool{}, nontrivial: map[string]bool{}}
	c.Scratch = filepath.Join(verifRoot, ".scratch", fmt.Sprintf("%s.%d", id, os.Getpid()))
	if err := os.MkdirAll(c.Scratch, 0o755); err != nil {
		return nil, err
	}
	if err := c.loadFindings(); err != nil {
		return nil, err
	}
	if err := c.buildCLI(); err != nil {
		return nil, err
	}
	return c, nil
}

func (c *Ctx) cleanup() {
	if !c.Keep && c.Scratch != "" {
		os.RemoveAll(c.Scratch)
	}
}

// buildCLI builds the binary under test from the current working tree of the
// repository, with the verification hooks enabled.
func (c *Ctx) buildCLI() error {
	c.Bin = filepath.Join(c.Scratch, "crs-toolchain")
	cmd := exec.Command("go", "build", "-tags", "verif", "-o", c.Bin, ".")
	cmd.Dir = c.Repo
	cmd.Env = goEnv()
	if b, err := cmd.CombinedOutput(); err != nil {
		return fmt.Errorf("building %s failed: %v\n%s", c.Repo, err, b)
	}
	return nil
}

func goEnv() []string {
	env := os.Environ()
	env = append(env, "GOFLAGS=-mod=mod", "GOPROXY=off", "GOSUMDB=off", "GOTOOLCHAIN=local", "CGO_ENABLED=0")
	return env
}

func (c *Ctx) loadFindings() error {
	b, err := os.ReadFile(filepath.Join(verifRoot, "known_findings.json"))
	if os.IsNotExist(err) {
		return nil
	}
	if err != nil {
		return err
	}
	var all []Finding
	if err := json.Unmarshal(b, &all); err != nil {
		return fmt.Errorf("known_findings.json: %v", err)
	}
	c.findings = all
	return nil
}

// knownFinding reports whether key is listed as a (not fixed) known finding of
// this property; the first time it prints the KNOWN-FINDING line.
func (c *Ctx) knownFinding(key, what string) bool {
	c.mu.Lock()
	defer c.mu.Unlock()
	for _, f := range c.findings {
		if f.Status == "known" && f.Property == c.ID && f.Key == key {
			if !c.knownSeen[key] {
				c.knownSeen[key] = true
				c.knownPrinted = append(c.knownPrinted,
					fmt.Sprintf("KNOWN-FINDING: property=%s %s: %s (e.g. %s)", c.ID, key, f.Description, what))
			}
			return true
		}
	}
	return false
}

// violation records a confirmed violation and writes its replay file.
func (c *Ctx) violation(kind string, detail any) {
	c.mu.Lock()
	full := len(c.Violations) >= 20
	c.mu.Unlock()
	if full {
		return
	}
	b, _ := json.MarshalIndent(map[string]any{"property": c.ID, "kind": kind, "seed": c.Seed, "tier": c.Tier, "detail": detail}, "", " ")
	h := sha256.Sum256(b)
	dir := filepath.Join(verifRoot, "replays", c.ID)
	os.MkdirAll(dir, 0o755)
	p := filepath.Join(dir, hex.EncodeToString(h[:6])+".json")
	os.WriteFile(p, b, 0o644)
	c.mu.Lock()
	defer c.mu.Unlock()
	for _, v := range c.Violations {
		if v == p {
			return
		}
	}
	if len(c.Violations) < 20 {
		c.Violations = append(c.Violations, p)
	}
}

// infra records an infrastructure problem: the run ends with exit status 2, never with a verdict.
func (c *Ctx) infra(err error) {
	c.mu.Lock()
	if c.infraErr == nil {
		c.infraErr = err
	}
	c.mu.Unlock()
}

func (c *Ctx) addSample(s any) {
	c.mu.Lock()
	defer c.mu.Unlock()
	if len(c.samples) < 5 {
		c.samples = append(c.samples, s)
	}
}

func (c *Ctx) countEval(n int) {
	c.mu.Lock()
	c.evaluations += int64(n)
	c.mu.Unlock()
}

func (c *Ctx) markNontrivial(key string) {
	c.mu.Lock()
	c.nontrivial[key] = true
	c.mu.Unlock()
}

func hashOf(v any) string {
	b, _ := json.Marshal(v)
	h := sha256.Sum256(b)
	return hex.EncodeToString(h[:8])
}

func (c *Ctx) writeEvidence() error {
	cov := c.Cov
	if c.Assumptions == nil {
		c.Assumptions = []string{}
	}
	if c.timeoutRetries > 0 {
		cov["cli_runs_repeated_after_timeout"] = c.timeoutRetries
	}
	cov["evaluations"] = c.evaluations
	cov["distinct_nontrivial"] = len(c.nontrivial)
	if len(c.samples) > 0 {
		cov["samples"] = c.samples
	}
	ev := map[string]any{
		"property_id": c.ID,
		"tier":        c.Tier,
		"seed":        c.Seed,
		"level":       c.Level,
		"coverage":    cov,
		"assumptions": c.Assumptions,
		"wall_s":      c.Wall,
		"violations":  len(c.Violations),
	}
	b, err := json.MarshalIndent(ev, "", " ")
	if err != nil {
		return err
	}
	dir := filepath.Join(verifRoot, "evidence")
	os.MkdirAll(dir, 0o755)
	return os.WriteFile(filepath.Join(dir, c.ID+".json"), append(b, '\n'), 0o644)
}

// ---------------------------------------------------------------------------
// sandboxes and trees

// Tree is a set of files (relative path -> content).
type Tree map[string]string

func (c *Ctx) newSandbox(name string) (string, error) {
	d := filepath.Join(c.Scratch, "sb", name)
	os.RemoveAll(d)
	return d, os.MkdirAll(d, 0o755)
}

func writeTree(root string, t Tree) error {
	for p, content := range t {
		full := filepath.Join(root, p)
		if err := os.MkdirAll(filepath.Dir(full), 0o755); err != nil {
			return err
		}
		if strings.HasSuffix(p, "/") {
			if err := os.MkdirAll(full, 0o755); err != nil {
				return err
			}
			continue
		}
		if err := os.WriteFile(full, []byte(content), 0o644); err != nil {
			return err
		}
	}
	return nil
}

// snapshot reads every regular file below root (path -> content) and records
// directories as "path/" -> "".
func snapshot(root string) (Tree, error) {
	t := Tree{}
	err := filepath.Walk(root, func(p string, info os.FileInfo, err error) error {
		if err != nil {
			return err
		}
		rel, _ := filepath.Rel(root, p)
		if rel == "." {
			return nil
		}
		if info.IsDir() {
			t[rel+"/"] = ""
			return nil
		}
		if info.Mode()&os.ModeSymlink != 0 {
			l, _ := os.Readlink(p)
			t[rel] = "symlink:" + l
			return nil
		}
		b, err := os.ReadFile(p)
		if err != nil {
			return err
		}
		t[rel] = string(b)
		return nil
	})
	return t, err
}

// diffTrees lists paths whose presence or content differs.
func diffTrees(a, b Tree) []string {
	var d []string
	for p, ca := range a {
		cb, ok := b[p]
		if !ok {
			d = append(d, "deleted:"+p)
		} else if ca != cb {
			d = append(d, "changed:"+p)
		}
	}
	for p := range b {
		if _, ok := a[p]; !ok {
			d = append(d, "created:"+p)
		}
	}
	sort.Strings(d)
	return d
}
