package main

import (
	"bytes"
	"context"
	"fmt"
	"os/exec"
	"strings"
	"sync"
	"sync/atomic"
	"time"
)

// CLIResult is the observable outcome of one invocation of the real binary.
type CLIResult struct {
	Stdout   string `json:"stdout"`
	Stderr   string `json:"stderr"`
	Exit     int    `json:"exit"`
	TimedOut bool   `json:"timed_out,omitempty"`
	Millis   int64  `json:"ms"`
}

// runCLI executes the binary under test.
func (c *Ctx) runCLI(dir string, stdin string, args ...string) CLIResult {
	return c.runCLIEnv(dir, stdin, nil, 20*time.Second, args...)
}

func (c *Ctx) runCLIEnv(dir string, stdin string, extraEnv []string, timeout time.Duration, args ...string) CLIResult {
	return c.runBinEnv(c.Bin, dir, stdin, extraEnv, timeout, args...)
}

// runBinEnv executes a given copy/build of the binary under test.
func (c *Ctx) runBinEnv(bin, dir string, stdin string, extraEnv []string, timeout time.Duration, args ...string) CLIResult {
	var r CLIResult
	for try := 0; try < 8; try++ {
		r = c.runBinOnce(bin, dir, stdin, extraEnv, timeout, args...)
		// ETXTBSY: the freshly written executable is still open in a concurrently forked child
		if r.Exit == -2 && strings.Contains(r.Stderr, "text file busy") {
			time.Sleep(time.Duration(20*(try+1)) * time.Millisecond)
			continue
		}
		break
	}
	if r.TimedOut {
		// A run that did not finish in time may be a hang of the code under test - or a machine that
		// is busy with other work.  Only a run that also exceeds four times the period, started after
		// a pause, counts as "does not terminate"; a load spike must never become a verdict.
		time.Sleep(2 * time.Second)
		atomic.AddInt64(&c.timeoutRetries, 1)
		r = c.runBinOnce(bin, dir, stdin, extraEnv, 4*timeout, args...)
	}
	if r.Exit == -2 {
		c.infra(fmt.Errorf("cannot execute %s: %s", bin, r.Stderr))
	}
	return r
}

func (c *Ctx) runBinOnce(bin, dir string, stdin string, extraEnv []string, timeout time.Duration, args ...string) CLIResult {
	ctx, cancel := context.WithTimeout(context.Background(), timeout)
	defer cancel()
	cmd := exec.CommandContext(ctx, bin, args...)
	cmd.Dir = dir
	cmd.Env = append([]string{"CI=true", "HOME=" + c.Scratch, "PATH=/usr/bin:/bin", "NO_COLOR=1"}, extraEnv...)
	cmd.Stdin = strings.NewReader(stdin)
	var so, se bytes.Buffer
	cmd.Stdout = &so
	cmd.Stderr = &se
	start := time.Now()
	err := cmd.Run()
	r := CLIResult{Stdout: so.String(), Stderr: se.String(), Millis: time.Since(start).Milliseconds()}
	if ctx.Err() != nil {
		r.TimedOut = true
		r.Exit = -1
		return r
	}
	if err != nil {
		if ee, ok := err.(*exec.ExitError); ok {
			r.Exit = ee.ExitCode()
		} else {
			r.Exit = -2
			r.Stderr += "\nexec error: " + err.Error()
		}
	}
	return r
}

// parallel runs fn(i) for i in [0,n) on all cores.
func parallel(n, workers int, fn func(i int)) {
	if workers <= 0 {
		workers = 16
	}
	var wg sync.WaitGroup
	ch := make(chan int, 256)
	for w := 0; w < workers; w++ {
		wg.Add(1)
		go func() {
			defer wg.Done()
			for i := range ch {
				fn(i)
			}
		}()
	}
	for i := 0; i < n; i++ {
		ch <- i
	}
	close(ch)
	wg.Wait()
}
