package main

import (
	"fmt"
	"strings"
	"time"
)

func init() { register("C01", checkC01) }

// C01: generated regex == plain reading (language equality).
func checkC01(c *Ctx) error {
	base := map[string]string{
		"Sigma": "<- MCSigma", "N": "= 3", "LeafD": "<- MCLeafD",
		"Deviations": "<- MCDev", "Cfg": "<- MCCfg", "PoolSel": `= "core"`, "CfgSel": `= "absent"`,
	}
	with := func(kv ...string) map[string]string {
		m := map[string]string{}
		for k, v := range base {
			m[k] = v
		}
		for i := 0; i+1 < len(kv); i += 2 {
			m[kv[i]] = kv[i+1]
		}
		return m
	}
	// 1. the design theorem on the intended instance: the text the
	//    implementation-shaped machine builds has the language of the plain
	//    reading, for every well-formed program of the small configuration.
	thLines, exLines, exDepth := "3", "4", "1"
	keepMod, cliEvery := uint64(8), int64(20)
	if c.Tier == "thorough" {
		thLines, exLines, exDepth = "4", "5", "2"
		keepMod, cliEvery = 24, 40
	}
	th, err := c.runTLC(TLCRun{Module: "MC_C01", Seed: c.Seed, Timeout: 20 * time.Minute,
		Constants: with("MaxLines", "= "+thLines, "MaxDepth", "= 2", "Export", "= FALSE", "Theorem", "= TRUE"),
		Invs:      []string{"Compiles", "Refines", "StackShape", "StashKnown"}}, nil)
	if err != nil {
		return fmt.Errorf("design theorem (spec-level, says nothing about the code): %v", err)
	}
	// 2. every complete program of the larger configuration, replayed
	rp, err := c.newAsmReplayer(keepMod, cliEvery)
	if err != nil {
		return err
	}
	// the command must hand the bytes of the file to the compiler as they are: programs whose LAST
	// line ends in a blank always go through the CLI binary too
	rp.cliAlways = func(cs *AsmCase) bool {
		return len(cs.Lines) > 0 && strings.HasSuffix(cs.Lines[len(cs.Lines)-1], " ") && caseHash(cs.Lines, c.Seed)%4 == 0
	}
	ex, err := c.runTLC(TLCRun{Module: "MC_C01", Seed: c.Seed, Timeout: 40 * time.Minute,
		Constants: with("MaxLines", "= "+exLines, "MaxDepth", "= "+exDepth, "Export", "= TRUE", "Theorem", "= FALSE"),
		Invs:      []string{"Compiles", "StackShape", "ExportCase"}}, rp.onCase)
	ferr := rp.finish()
	if err != nil {
		return err
	}
	if ferr != nil {
		return ferr
	}
	if rp.replayed == 0 {
		return fmt.Errorf("no case was replayed")
	}
	// 3. case folding: lower-case sources, subjects with upper-case letters, the i flag
	rpf, err := c.newAsmReplayer(1, 25)
	if err != nil {
		return err
	}
	foldLines := "3"
	if c.Tier == "thorough" {
		foldLines = "4"
	}
	fx, err := c.runTLC(TLCRun{Module: "MC_C01", Seed: c.Seed, Timeout: 40 * time.Minute,
		Constants: with("PoolSel", `= "fold"`, "MaxLines", "= "+foldLines, "MaxDepth", "= 1", "Export", "= TRUE", "Theorem", "= TRUE"),
		Invs:      []string{"Compiles", "Refines", "ExportCase"}}, func(raw []byte) error {
		// only programs with the i flag add something over the core pool
		if !strings.HasPrefix(string(raw), `{"poolinfo"`) && !strings.Contains(string(raw), `##!+ i`) {
			return nil
		}
		return rpf.onCase(raw)
	})
	ferr = rpf.finish()
	if err != nil {
		return err
	}
	if ferr != nil {
		return ferr
	}
	c.Cov["fold_programs_replayed"] = rpf.replayed
	ex.Distinct += fx.Distinct
	ex.Generated += fx.Generated
	c.Cov["states"] = th.Distinct + ex.Distinct
	c.Cov["transitions"] = th.Generated + ex.Generated
	c.Cov["theorem_states"] = th.Distinct
	c.Cov["programs_enumerated"] = rp.seen
	c.Cov["traces_validated_against_impl"] = rp.replayed
	c.Cov["cli_executions"] = rp.cliRuns
	c.Cov["disagreements"] = rp.mism
	c.Cov["exhaustive"] = false
	c.Cov["rule"] = fmt.Sprintf("TLC enumerates every well-formed program of <= %s lines (nesting <= %s) over the vocabulary of MC_C01; "+
		"1/%d of them (hash of program and seed) are executed on the real assembler and language-compared on the universe Sigma^<=3; "+
		"non-trivial = at least 2 entries and 1 marker/prefix/suffix/flag line, distinct by program text", exLines, exDepth, keepMod)
	c.Assumptions = append(c.Assumptions,
		"Go regexp is the RE2 reference; languages are compared on all strings over the model alphabet up to length N only",
		"the in-process assembler run is an accelerator; every disagreement and every n-th case is re-executed through the CLI binary")
	c.Summary = fmt.Sprintf("theorem_states=%d programs=%d replayed=%d cli=%d", th.Distinct, rp.seen, rp.replayed, rp.cliRuns)
	return nil
}
