package main

import (
	"fmt"
	"strings"
	"time"
)

func init() {
	register("C05", func(c *Ctx) error {
		return checkParseFamily(c, "inc", "include", 3, 4, func(cs *AsmCase) bool {
			return hasTag(cs, "include") && len(cs.Same) >= 2 && cs.Expect == "ok"
		}, "program contains an include that contributes at least 2 lines and compiles")
	})
	register("C06", func(c *Ctx) error {
		return checkParseFamily(c, "exc", "include-except / suffix replacement", 3, 3, func(cs *AsmCase) bool {
			for _, l := range cs.Lines {
				if strings.Contains(l, "include-except") || strings.Contains(l, " -- ") {
					return cs.Expect == "ok"
				}
			}
			return false
		}, "program contains an include-except or a suffix-replacement list and compiles")
	})
	register("C07", func(c *Ctx) error {
		return checkParseFamily(c, "def", "definition", 4, 4, func(cs *AsmCase) bool {
			return hasTag(cs, "define") && strings.Contains(strings.Join(cs.Lines, "\n"), "{{") && cs.Expect == "ok"
		}, "program has at least one definition and one reference")
	})
}

func hasTag(cs *AsmCase, t string) bool {
	for _, x := range cs.Tags {
		if x == t {
			return true
		}
	}
	return false
}

// checkParseFamily: one parser-level family of MC_Parse, replayed on the real code.
func checkParseFamily(c *Ctx, family, what string, quickLines, thoroughLines int, nontriv func(*AsmCase) bool, ntRule string) error {
	base := map[string]string{
		"Sigma": "<- MCSigma", "N": "= 3", "LeafD": "<- MCLeafD", "Deviations": "<- MCDev", "Cfg": "<- MCCfg",
		"Family": fmt.Sprintf("= %q", family), "MaxDepth": "= 1",
	}
	with := func(kv ...string) map[string]string {
		m := map[string]string{}
		for k, v := range base {
			m[k] = v
		}
		for i := 0; i+1 < len(kv); i += 2 {
			m[kv[i]] = kv[i+1]
		}
		return m
	}
	lines := quickLines
	if c.Tier == "thorough" {
		lines = thoroughLines
	}
	thLines := lines - 1
	// 1. design theorems on the model: refinement of the plain reading through the
	//    parser, and independence of expandDefinitions from the map iteration orders
	th, err := c.runTLC(TLCRun{Module: "MC_Parse", Seed: c.Seed, Timeout: 20 * time.Minute,
		Constants: with("MaxLines", fmt.Sprintf("= %d", thLines), "Export", "= FALSE", "Theorem", "= TRUE"),
		Invs:      []string{"Refines", "DefOrderFree"}}, nil)
	if err != nil {
		return fmt.Errorf("design theorem (spec-level, says nothing about the code): %v", err)
	}
	// 2. export and replay
	rp, err := c.newAsmReplayer(1, 10)
	if err != nil {
		return err
	}
	rp.nontriv = nontriv
	ex, err := c.runTLC(TLCRun{Module: "MC_Parse", Seed: c.Seed, Timeout: 40 * time.Minute,
		Constants: with("MaxLines", fmt.Sprintf("= %d", lines), "Export", "= TRUE", "Theorem", "= FALSE"),
		Invs:      []string{"ExportCase"}}, rp.onCase)
	simulated := int64(0)
	if err == nil && c.Tier == "thorough" {
		// beyond the exhaustive bound: random longer programs (TLC simulation mode evaluates the
		// export on every successor of every step of a behaviour)
		before := rp.seen
		_, err = c.runTLC(TLCRun{Module: "MC_Parse", Seed: c.Seed, Timeout: 40 * time.Minute, Workers: 4,
			Simulate: "num=2500", Depth: lines + 3,
			Constants: with("MaxLines", fmt.Sprintf("= %d", lines+3), "Export", "= TRUE", "Theorem", "= FALSE"),
			Invs:      []string{"ExportCase"}}, rp.onCase)
		simulated = rp.seen - before
	}
	ferr := rp.finish()
	if err != nil {
		return err
	}
	if ferr != nil {
		return ferr
	}
	c.Cov["random_longer_programs"] = simulated
	if rp.replayed == 0 {
		return fmt.Errorf("no case was replayed")
	}
	c.Cov["states"] = th.Distinct + ex.Distinct
	c.Cov["transitions"] = th.Generated + ex.Generated
	c.Cov["theorem_states"] = th.Distinct
	c.Cov["programs_enumerated"] = rp.seen
	c.Cov["traces_validated_against_impl"] = rp.replayed
	c.Cov["cli_executions"] = rp.cliRuns
	c.Cov["disagreements"] = rp.mism
	c.Cov["exhaustive"] = true
	c.Cov["rule"] = fmt.Sprintf("TLC enumerates every well-formed main program of <= %d lines over the %s vocabulary of MC_Parse (family %q) around a fixed set of include/exclude files; "+
		"all of them are executed on the real code: language-compared with the plain reading of the spec's parser output AND byte-compared with the real output for the hand-inlined program the spec derives; "+
		"thorough tier: plus random programs of up to %d lines (TLC simulation); non-trivial = %s, distinct by program text", lines, what, family, lines+3, ntRule)
	c.Assumptions = append(c.Assumptions,
		"Go regexp is the RE2 reference; languages are compared on all strings over the model alphabet up to length N only",
		"the in-process assembler run is an accelerator; every disagreement and every 10th case is re-executed through the CLI binary")
	c.Summary = fmt.Sprintf("theorem_states=%d programs=%d replayed=%d cli=%d", th.Distinct, rp.seen, rp.replayed, rp.cliRuns)
	return nil
}
