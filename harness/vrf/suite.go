package main

import (
	"bufio"
	"encoding/json"
	"fmt"
	"os"
	"os/exec"
	"path/filepath"
	"strings"
	"time"
)

// validateSuiteTraces is Direction B on executions nobody wrote for this framework: the
// repository's own tests (packages regex/... and cmd, built with the hooks on) are run once with
// tracing, and everything they recorded must be a behaviour of the specification -
//   - the assembler events of every compilation (Operator.Run) against AsmShape,
//   - the (line, kind) pairs of the parser against Classify, the formatter's depth events,
//   - the (before, after) pairs of the clean-up passes against Cleanup!Pipeline.
//
// The tests call processors directly as well (no Operator.Run around them): events outside a run
// are not part of the run machine and are dropped before validation.
// The outcome of the tests themselves is not looked at here (bin/baseline does that).
func validateSuiteTraces(c *Ctx) error {
	tf := filepath.Join(c.Scratch, "suite.ndjson")
	os.Remove(tf)
	cmd := exec.Command("go", "test", "-tags", "verif", "-vet=off", "-count=1", "-skip", "SelfUpdate|Updater", "./regex/...", "./cmd/...")
	cmd.Dir = c.Repo
	cmd.Env = append(goEnv(), "CRS_VERIF_TRACE="+tf, "CI=true")
	done := make(chan error, 1)
	go func() { _, err := cmd.CombinedOutput(); done <- err }()
	select {
	case <-done: // failing tests are bin/baseline's business
	case <-time.After(10 * time.Minute):
		cmd.Process.Kill()
		return fmt.Errorf("the test suite of %s did not finish within 10 minutes", c.Repo)
	}
	f, err := os.Open(tf)
	if err != nil {
		return fmt.Errorf("the test suite recorded no trace (%v)", err)
	}
	defer f.Close()
	defer os.Remove(tf)
	// keep, per process, only the events between run.enter and run.exit
	inRun := map[int]bool{}
	runFile := filepath.Join(c.Scratch, "suite-runs.ndjson")
	out, err := os.Create(runFile)
	if err != nil {
		return err
	}
	defer os.Remove(runFile)
	w := bufio.NewWriter(out)
	sc := bufio.NewScanner(f)
	sc.Buffer(nil, 1<<26)
	total, kept, outside := 0, 0, 0
	for sc.Scan() {
		total++
		var ev struct {
			Ev  string `json:"ev"`
			Pid int    `json:"pid"`
		}
		if json.Unmarshal(sc.Bytes(), &ev) != nil {
			continue
		}
		asm := strings.HasPrefix(ev.Ev, "asm.") || strings.HasPrefix(ev.Ev, "run.") || ev.Ev == "cmd.word"
		if !asm {
			continue
		}
		if ev.Ev == "run.enter" {
			inRun[ev.Pid] = true
		}
		if inRun[ev.Pid] {
			w.Write(sc.Bytes())
			w.WriteByte('\n')
			kept++
		} else {
			outside++
		}
		if ev.Ev == "run.exit" {
			inRun[ev.Pid] = false
		}
	}
	w.Flush()
	out.Close()
	tr, err := c.validateAsmTraces([]string{runFile}, []string{"test suite of the repository"})
	if err != nil {
		return err
	}
	if !tr.Accepted {
		c.violation("trace", map[string]any{"why": "an execution recorded while the repository's own tests ran is not a behaviour of AsmShape",
			"rejected_event": tr.RejectedEv, "event_index": tr.Consumed, "spec_state": tr.State})
	}
	pft := newParseFmtTrace()
	if err := pft.add(tf); err != nil {
		return err
	}
	pres, err := pft.validate(c)
	if err != nil {
		return err
	}
	if !pres.Accepted {
		c.violation("trace", map[string]any{"why": "the repository's own tests recorded a line kind or an indentation depth the specification does not allow",
			"record": pres.BadKind + pres.BadFmt})
	}
	pairs := map[[2]string]bool{}
	readCleanPairs(tf, pairs)
	nclean, badPair, err := c.validateCleanPairs(pairs)
	if err != nil {
		return err
	}
	if badPair != "" {
		c.violation("trace", map[string]any{"why": "a clean-up execution recorded while the repository's own tests ran differs from Cleanup!Pipeline", "pair": badPair})
	}
	c.Cov["suite_events_recorded"] = total
	c.Cov["suite_assembler_events_validated"] = tr.Consumed
	c.Cov["suite_assembler_events_outside_a_run"] = outside
	c.Cov["suite_runs_validated"] = tr.Runs
	c.Cov["suite_line_kinds_validated"] = pres.TotalK
	c.Cov["suite_format_events_validated"] = pres.TotalF
	c.Cov["suite_cleanups_validated"] = nclean
	return nil
}
