package main

import (
	"fmt"
	"os"
	"path/filepath"
	"strings"
	"sync"
	"sync/atomic"
	"time"
)

func init() { register("C14", checkCopyright) }

type CopyCase struct {
	Orig string     `json:"orig"`
	Hist [][]string `json:"hist"`
	Outs []string   `json:"outs"`
	File int        `json:"file"`
	CRLF bool       `json:"crlf"`
}

func checkCopyright(c *Ctx) error {
	runs := 2
	keepMod := uint64(1)
	if c.Tier == "thorough" {
		runs, keepMod = 3, 2
	}
	consts := func(export, theorem bool) map[string]string {
		return map[string]string{"MaxRuns": fmt.Sprintf("= %d", runs), "Export": "= " + tlaBool(export), "Theorem": "= " + tlaBool(theorem), "Narrow": "= FALSE"}
	}
	th, err := c.runTLC(TLCRun{Module: "MC_Copyright", Seed: c.Seed, Timeout: 20 * time.Minute,
		Constants: consts(false, true), Invs: []string{"Theorems"}}, nil)
	if err != nil {
		return fmt.Errorf("design theorems of Copyright (spec-level, says nothing about the code): %v", err)
	}
	var mu sync.Mutex
	var cases []CopyCase
	var enumerated int64
	ex, err := c.runTLC(TLCRun{Module: "MC_Copyright", Seed: c.Seed, Timeout: 20 * time.Minute,
		Constants: consts(true, false), Invs: []string{"ExportCase"}}, func(raw []byte) error {
		var cc CopyCase
		if err := mustJSON(raw, &cc); err != nil {
			return err
		}
		atomic.AddInt64(&enumerated, 1)
		// a history is replayed once, at its full length (its prefixes are part of it)
		if len(cc.Hist) != runs {
			return nil
		}
		if keepMod > 1 && caseHash([]string{cc.Orig, jsonStr(cc.Hist)}, c.Seed)%keepMod != 0 {
			return nil
		}
		mu.Lock()
		cases = append(cases, cc)
		mu.Unlock()
		return nil
	})
	if err != nil {
		return err
	}
	var cli int64
	parallel(len(cases), 16, func(i int) { copyReplay(c, fmt.Sprintf("cp%d", i), &cases[i], &cli) })
	for i, cc := range cases {
		if i < 3 {
			c.addSample(map[string]any{"file": cc.Orig, "invocations": cc.Hist, "spec_after_each": cc.Outs})
		}
		distinct := map[string]bool{}
		for _, h := range cc.Hist {
			distinct[h[0]] = true
		}
		if len(distinct) >= 2 && cc.File != 3 {
			c.markNontrivial(hashOf([]any{cc.Orig, cc.Hist}))
		}
	}
	c.countEval(len(cases))
	c.Cov["states"] = th.Distinct + ex.Distinct
	c.Cov["transitions"] = th.Generated + ex.Generated
	c.Cov["histories_enumerated"] = enumerated
	c.Cov["traces_validated_against_impl"] = len(cases)
	c.Cov["cli_executions"] = cli
	c.Cov["exhaustive"] = keepMod == 1
	c.Cov["rule"] = fmt.Sprintf("every history of %d invocations over 7 version spellings (plain, lower/upper-case pre-release, v prefix, two components, build metadata, git-describe) x 2 years on 5 files with each marker kind 0..2 times, each with LF and with CR LF line ends (compared modulo line ends), in plain, nested and dot-named directories and under a dot-named root; after EVERY invocation all .conf/.example files must equal the spec byte for byte, decoy files stay untouched, repeating the last invocation changes nothing; non-trivial = at least two different versions in the history on a file with markers", runs)
	c.Summary = fmt.Sprintf("theorem_states=%d histories=%d cli=%d", th.Distinct, len(cases), cli)
	return nil
}

func copyReplay(c *Ctx, name string, cc *CopyCase, cli *int64) {
	sb, err := c.newSandbox(name)
	if err != nil {
		return
	}
	defer os.RemoveAll(sb)
	// every other case lives in a root whose own name starts with a dot
	root := sb
	if caseHash([]string{cc.Orig, jsonStr(cc.Hist)}, c.Seed)%2 == 0 {
		root = filepath.Join(sb, ".coreruleset")
	}
	targets := []string{"rules/REQUEST-901-INITIALIZATION.conf", "crs-setup.conf.example", "plugins/sub/dir/extra.conf", "plugins/.disabled/x.conf"}
	norm := func(s string) string {
		if cc.CRLF {
			return strings.ReplaceAll(s, "\r\n", "\n") // the statement does not say whether CR LF survives
		}
		return s
	}
	t := Tree{"regex-assembly/": "",
		"rules/notes.conf.bak":  cc.Orig,
		"rules/unicode.data":    cc.Orig,
		"README.md":             cc.Orig,
		"rules/conf":            cc.Orig,
		"docs/example.conf.txt": cc.Orig,
	}
	for _, p := range targets {
		t[p] = cc.Orig
	}
	if err := writeTree(root, t); err != nil {
		return
	}
	prev, _ := snapshot(root)
	bad := func(step int, why string, extra map[string]any) {
		d := map[string]any{"why": why, "file": cc.Orig, "invocations": cc.Hist, "step": step}
		for k, v := range extra {
			d[k] = v
		}
		c.violation("copyright", d)
	}
	for i, h := range cc.Hist {
		r := c.runCLI(root, "", "-d", root, "chore", "update-copyright", "-v", h[0], "-y", h[1])
		atomic.AddInt64(cli, 1)
		if r.Exit != 0 {
			bad(i, fmt.Sprintf("update-copyright -v %s -y %s failed (exit %d)", h[0], h[1], r.Exit), map[string]any{"stderr": lastLine(r.Stderr)})
			return
		}
		now, _ := snapshot(root)
		for _, p := range targets {
			if norm(now[p]) != cc.Outs[i] {
				bad(i, fmt.Sprintf("after invocation %d (-v %s -y %s) %s differs from the spec", i+1, h[0], h[1], p), map[string]any{"real": now[p], "spec": cc.Outs[i]})
				return
			}
		}
		for _, d := range diffTrees(prev, now) {
			ok := false
			for _, p := range targets {
				ok = ok || d == "changed:"+p
			}
			if !ok {
				bad(i, "update-copyright touched a file that is neither *.conf nor *.example", map[string]any{"diff": d})
			}
		}
		prev = now
	}
	last := cc.Hist[len(cc.Hist)-1]
	r := c.runCLI(root, "", "-d", root, "chore", "update-copyright", "-v", last[0], "-y", last[1])
	atomic.AddInt64(cli, 1)
	now, _ := snapshot(root)
	if d := diffTrees(prev, now); len(d) > 0 || r.Exit != 0 {
		bad(len(cc.Hist), "repeating the last invocation changed the tree", map[string]any{"diff": strings.Join(d, ",")})
	}
}
