package main

import (
	"fmt"
	"os"
	"regexp"
	"strings"
	"sync"
	"sync/atomic"
	"time"
)

func init() { register("C17", checkC17) }

type scanCase struct {
	Consumer string   `json:"consumer"`
	Lines    []string `json:"lines"`
	FNL      bool     `json:"fnl"`
	Allowed  string   `json:"allowed"`
}

func classLen(cl string, huge int) int {
	switch cl {
	case "short":
		return 3
	case "below":
		return 65534
	case "at":
		return 65536
	case "above":
		return 65537
	case "double":
		return 131072
	default:
		return huge
	}
}

func checkC17(c *Ctx) error {
	// the upper end of the property's quantifier: a line of exactly 1 MiB
	huge := 1 << 20
	var mu sync.Mutex
	cases := map[string]*struct {
		sc      scanCase
		allowed map[string]bool
	}{}
	st, err := c.runTLC(TLCRun{Module: "MC_Scanner", Seed: c.Seed, Timeout: 10 * time.Minute, Workers: 4,
		Constants: map[string]string{"Inputs": "<- MCInputs", "SilentStop": "= FALSE", "Export": "= TRUE", "Full": "= " + tlaBool(c.Tier == "thorough")},
		Invs:      []string{"NoSilentTruncation", "ExportCase"}}, func(raw []byte) error {
		var sc scanCase
		if err := mustJSON(raw, &sc); err != nil {
			return err
		}
		key := fmt.Sprintf("%s|%v|%v", sc.Consumer, sc.Lines, sc.FNL)
		mu.Lock()
		e := cases[key]
		if e == nil {
			e = &struct {
				sc      scanCase
				allowed map[string]bool
			}{sc: sc, allowed: map[string]bool{}}
			cases[key] = e
		}
		e.allowed[sc.Allowed] = true
		mu.Unlock()
		return nil
	})
	if err != nil {
		return fmt.Errorf("model of Scanner (spec-level): %v", err)
	}
	keys := make([]string, 0, len(cases))
	for k := range cases {
		keys = append(keys, k)
	}
	var cli int64
	parallel(len(keys), 8, func(i int) {
		e := cases[keys[i]]
		scanReplay(c, fmt.Sprintf("sc%d", i), e.sc, e.allowed, huge, &cli)
	})
	n := 0
	for _, k := range keys {
		e := cases[k]
		if n < 3 {
			c.addSample(map[string]any{"consumer": e.sc.Consumer, "line_length_classes": e.sc.Lines, "final_newline": e.sc.FNL, "allowed": e.allowed})
			n++
		}
		for _, l := range e.sc.Lines {
			if l != "short" && l != "below" {
				c.markNontrivial(k)
			}
		}
	}
	c.countEval(len(keys))
	c.Cov["states"] = st.Distinct
	c.Cov["transitions"] = st.Generated
	c.Cov["traces_validated_against_impl"] = len(keys)
	c.Cov["cli_executions"] = cli
	c.Cov["exhaustive"] = true
	c.Cov["rule"] = fmt.Sprintf("the Scanner model is explored for every input of 1 or 3 lines (thorough: also 3 lines with two long lines and 5 lines) with one line of length class below/at/above/double/huge (65534, 65536, 65537, 131072, %d bytes) at every position; each behaviour is replayed for 11 consumers (generate entry from a file and from standard input, entry produced by definition expansion, include file, exclude file, include with suffix replacement, format of entries, format of directive lines, renumber-tests, update-copyright, rules file for update/compare) with and without final newline; exit 0 is accepted only when every line - in particular those after the long one - shows up in the result; non-trivial = the input has a line of 65536 bytes or more", huge)
	c.Summary = fmt.Sprintf("states=%d cases=%d cli=%d", st.Distinct, len(keys), cli)
	return nil
}

func scanReplay(c *Ctx, name string, sc scanCase, allowed map[string]bool, huge int, cli *int64) {
	root, err := c.newSandbox(name)
	if err != nil {
		return
	}
	defer os.RemoveAll(root)
	// concrete lines: entry i is a run of one letter
	letters := []string{"a", "b", "c", "d", "e"}
	texts := make([]string, len(sc.Lines))
	hasLong := false
	for i, cl := range sc.Lines {
		texts[i] = strings.Repeat(letters[i], classLen(cl, huge))
		if cl != "short" && cl != "below" {
			hasLong = true
		}
	}
	join := func(ls []string) string {
		s := strings.Join(ls, "\n")
		if sc.FNL {
			s += "\n"
		}
		return s
	}
	run := func(args ...string) CLIResult {
		atomic.AddInt64(cli, 1)
		return c.runCLIEnv(root, "", nil, 120*time.Second, append([]string{"-d", root}, args...)...)
	}
	bad := func(why string) {
		c.violation("scanner", map[string]any{"consumer": sc.Consumer, "line_length_classes": sc.Lines, "final_newline": sc.FNL, "why": why})
	}
	loud := func(r CLIResult, what string) bool {
		if r.Exit != 0 {
			if !hasLong {
				bad(fmt.Sprintf("%s failed (exit %d) on an input without any long line: %s", what, r.Exit, lastLine(r.Stderr)))
			}
			return true // a loud failure is an allowed outcome for long lines
		}
		return false
	}
	matchesAll := func(out string, want []string, notWant []string) string {
		re, err := regexp.Compile(`^(?:` + out + `)$`)
		if err != nil {
			return "output is not a regex: " + err.Error()
		}
		for i, w := range want {
			if !re.MatchString(w) {
				return fmt.Sprintf("entry %d of %d (length %d) is missing from the generated alternation", i+1, len(want), len(w))
			}
		}
		for _, w := range notWant {
			if re.MatchString(w) {
				return fmt.Sprintf("an entry of length %d that had to be removed is still matched", len(w))
			}
		}
		return ""
	}
	t := Tree{"regex-assembly/": ""}
	switch sc.Consumer {
	case "stdin":
		// the same text as in "generate", on standard input
		writeTree(root, t)
		atomic.AddInt64(cli, 1)
		r := c.runCLIEnv(root, join(texts), nil, 120*time.Second, "-d", root, "regex", "generate", "-")
		if loud(r, "generate -") {
			return
		}
		if w := matchesAll(r.Stdout, texts, nil); w != "" {
			bad("generate - exits 0 but " + w)
		}
	case "generate", "include", "suffix":
		prog := join(texts)
		want := texts
		if sc.Consumer == "include" {
			t["regex-assembly/include/big.ra"] = prog
			prog = "##!> include big\n"
		} else if sc.Consumer == "suffix" {
			t["regex-assembly/include/big.ra"] = prog
			prog = "##!> include big -- c zz\n"
			want = make([]string, len(texts))
			for i, x := range texts {
				want[i] = x
				if strings.HasSuffix(x, "c") {
					want[i] = x[:len(x)-1] + "zz"
				}
			}
		}
		t["regex-assembly/932100.ra"] = prog
		writeTree(root, t)
		r := run("regex", "generate", "932100")
		if loud(r, "generate") {
			return
		}
		if w := matchesAll(r.Stdout, want, nil); w != "" {
			bad("generate exits 0 but " + w)
		}
	case "expand":
		// the long line only comes into existence when a definition is expanded (twice) in one entry
		var prog, want []string
		for i, x := range texts {
			if sc.Lines[i] == "short" || sc.Lines[i] == "below" {
				prog = append(prog, x)
				want = append(want, x)
			} else {
				half := x[:len(x)/2]
				prog = append(prog, "##!> define v"+fmt.Sprint(i)+" "+half, "z{{v"+fmt.Sprint(i)+"}}{{v"+fmt.Sprint(i)+"}}")
				want = append(want, "z"+half+half)
			}
		}
		t["regex-assembly/932100.ra"] = join(prog)
		writeTree(root, t)
		r := run("regex", "generate", "932100")
		if loud(r, "generate") {
			return
		}
		if w := matchesAll(r.Stdout, want, nil); w != "" {
			bad("generate exits 0 but " + w)
		}
	case "exclude":
		// F = e1 e2 e3 plus the three texts; X = the three texts: only e1 e2 e3 may remain
		f := append([]string{"e1", "e2"}, texts...)
		f = append(f, "e3")
		t["regex-assembly/include/words.ra"] = strings.Join(f, "\n") + "\n"
		t["regex-assembly/exclude/big.ra"] = join(texts)
		t["regex-assembly/932100.ra"] = "##!> include-except words big\n"
		writeTree(root, t)
		r := run("regex", "generate", "932100")
		if loud(r, "generate") {
			return
		}
		if w := matchesAll(r.Stdout, []string{"e1", "e2", "e3"}, texts); w != "" {
			bad("generate exits 0 but " + w)
		}
	case "format":
		raw := join(texts)
		t["regex-assembly/932100.ra"] = raw
		writeTree(root, t)
		r := run("regex", "format", "932100")
		if loud(r, "format") {
			if b, _ := os.ReadFile(root + "/regex-assembly/932100.ra"); string(b) != raw {
				bad("format failed but modified the file")
			}
			return
		}
		b, _ := os.ReadFile(root + "/regex-assembly/932100.ra")
		if string(b) != fmtHeader+strings.Join(texts, "\n")+"\n" {
			bad(fmt.Sprintf("format exits 0 but the file is not header + all %d lines (got %d bytes, want %d)", len(texts), len(b), len(fmtHeader)+len(strings.Join(texts, "\n"))+1))
		}
	case "fmtdirective":
		// long lines are prefix lines: format recognises them, takes them apart and writes them back
		ls := make([]string, len(texts))
		for i, x := range texts {
			if sc.Lines[i] == "short" {
				ls[i] = x
			} else {
				ls[i] = "##!^ " + x
			}
		}
		raw := fmtHeader + strings.Join(ls, "\n") + "\n"
		t["regex-assembly/932100.ra"] = raw
		writeTree(root, t)
		r := run("regex", "format", "932100")
		if loud(r, "format") {
			if b, _ := os.ReadFile(root + "/regex-assembly/932100.ra"); string(b) != raw {
				bad("format failed but modified the file")
			}
			return
		}
		if b, _ := os.ReadFile(root + "/regex-assembly/932100.ra"); string(b) != raw {
			bad(fmt.Sprintf("format exits 0 but the formatted file (already canonical) changed: %d bytes, was %d", len(b), len(raw)))
		}
	case "renumber":
		ls := make([]string, len(texts))
		want := make([]string, len(texts))
		n := 0
		for i, x := range texts {
			if sc.Lines[i] == "short" {
				ls[i] = "  - test_id: 9"
				n++
				want[i] = fmt.Sprintf("  - test_id: %d", n)
			} else {
				ls[i] = "    desc: " + x
				want[i] = ls[i]
			}
		}
		p := "tests/regression/tests/REQUEST-932/932100.yaml"
		t[p] = join(ls)
		writeTree(root, t)
		r := run("util", "renumber-tests", "932100")
		if loud(r, "renumber-tests") {
			return
		}
		b, _ := os.ReadFile(root + "/" + p)
		if string(b) != strings.Join(want, "\n")+"\n" {
			bad(fmt.Sprintf("renumber-tests exits 0 but the file is not the renumbered %d lines (got %d bytes)", len(want), len(b)))
		}
	case "copyright":
		ls := make([]string, len(texts))
		want := make([]string, len(texts))
		for i, x := range texts {
			if sc.Lines[i] == "short" {
				ls[i] = "    ver:'OWASP_CRS/4.0.0',\\"
				want[i] = "    ver:'OWASP_CRS/4.1.0',\\"
			} else {
				ls[i] = "# " + x
				want[i] = ls[i]
			}
		}
		t["rules/big.conf"] = join(ls)
		writeTree(root, t)
		r := run("chore", "update-copyright", "-v", "4.1.0", "-y", "2030")
		if loud(r, "update-copyright") {
			return
		}
		b, _ := os.ReadFile(root + "/rules/big.conf")
		if string(b) != strings.Join(want, "\n")+"\n" {
			bad(fmt.Sprintf("update-copyright exits 0 but the file is not the updated %d lines (got %d bytes)", len(want), len(b)))
		}
	case "rules":
		// the long text is the regex itself (one entry) and comment lines around the rule
		pre, post := "# "+texts[0], "# "+texts[len(texts)-1]
		entry := texts[len(texts)/2]
		rule := "SecRule ARGS \"@rx old\" \\\n    \"id:932100,\\\n    block\""
		p := "rules/REQUEST-932-APPLICATION-ATTACK-RCE.conf"
		t[p] = join([]string{pre, rule, post})
		t["regex-assembly/932100.ra"] = entry + "\n"
		writeTree(root, t)
		r := run("regex", "update", "932100")
		if loud(r, "update") {
			return
		}
		b, _ := os.ReadFile(root + "/" + p)
		if string(b) != join([]string{pre, strings.Replace(rule, "old", entry, 1), post}) {
			bad(fmt.Sprintf("update exits 0 but the rules file is not the original with the operand replaced (got %d bytes)", len(b)))
		}
		r2 := run("regex", "compare", "932100")
		if r2.Exit != 0 {
			bad("compare reports a change right after update")
		}
	}
}
