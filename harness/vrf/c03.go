package main

import (
	"fmt"
	"os"
	"path/filepath"
	"regexp"
	"sort"
	"strings"
	"sync"
	"sync/atomic"
	"time"
)

func init() { register("C03", checkC03) }

var reNotFormattedAny = regexp.MustCompile(`(?m)^(?:::warning ::)?(\S+\.ra) not properly formatted$`)
var rePrefixRef = regexp.MustCompile(`(?m)^##!\^ \{\{(\w+)\}\}`)

// prefixUsesNestedDef: a prefix line refers to a definition whose value refers to another one.
func prefixUsesNestedDef(t string) bool {
	m := rePrefixRef.FindStringSubmatch(t)
	if m == nil {
		return false
	}
	for _, l := range strings.Split(t, "\n") {
		if strings.HasPrefix(l, "##!> define "+m[1]+" ") && strings.Contains(l, "{{") {
			return true
		}
	}
	return false
}

var reTwoPairs = regexp.MustCompile(`-- \S+ \S+ \S+ \S+`)

type clsLine struct {
	Txt  string   `json:"txt"`
	Kind string   `json:"kind"`
	Same []string `json:"same"`
}

// C03: same files, same output - in every process.
func checkC03(c *Ctx) error {
	runs, perFamily := 24, 60
	if c.Tier == "thorough" {
		runs, perFamily = 64, 400
	}
	// 1. the classification theorem for every iteration order of the pattern map
	var voc []clsLine
	st, err := c.runTLC(TLCRun{Module: "MC_Classify", Seed: c.Seed, Timeout: 20 * time.Minute,
		Constants: map[string]string{"IncludeUnanchored": "= FALSE", "Export": "= TRUE"}, Invs: []string{"Unambiguous"}}, func(raw []byte) error {
		var v struct {
			Lines []clsLine `json:"lines"`
		}
		if err := mustJSON(raw, &v); err != nil {
			return err
		}
		voc = v.Lines
		return nil
	})
	if err != nil {
		return fmt.Errorf("classification theorem (spec-level): %v", err)
	}
	if len(voc) == 0 {
		return fmt.Errorf("MC_Classify exported no vocabulary")
	}
	root, err := c.newSandbox("c03")
	if err != nil {
		return err
	}
	writeTree(root, Tree{"regex-assembly/include/f.ra": "inc1\ninc2\n", "regex-assembly/exclude/x.ra": "inc1\n"})
	var cli, tseq int64
	traceDir := filepath.Join(c.Scratch, "c03traces")
	os.MkdirAll(traceDir, 0o755)
	gen := func(dir, text string) string {
		atomic.AddInt64(&cli, 1)
		tf := filepath.Join(traceDir, fmt.Sprintf("t%d.ndjson", atomic.AddInt64(&tseq, 1)))
		r := c.runCLIEnv(dir, text, []string{"CRS_VERIF_TRACE=" + tf}, 20*time.Second, "-d", dir, "regex", "generate", "-")
		return fmt.Sprintf("exit=%d stdout=%q", r.Exit, r.Stdout)
	}
	// 2. multi-claimable lines: R fresh processes each, all equal to the program the spec names
	type job struct {
		what string
		text string
		same string
		root string
	}
	var jobs []job
	for _, l := range voc {
		jobs = append(jobs, job{what: "line " + l.Txt + " (" + l.Kind + ")", text: "a\n" + l.Txt + "\nb\n", same: strings.Join(l.Same, "\n") + "\n", root: root})
	}
	// 3. programs with several suffix pairs / several and nested definitions / flag sets
	var mu sync.Mutex
	famStates := int64(0)
	for _, fam := range []string{"exc", "def"} {
		famRoot, err := c.newSandbox("c03" + fam)
		if err != nil {
			return err
		}
		buckets := map[string][]job{}
		var files map[string][]string
		stf, err := c.runTLC(TLCRun{Module: "MC_Parse", Seed: c.Seed, Timeout: 20 * time.Minute,
			Constants: map[string]string{"Sigma": "<- MCSigma", "N": "= 3", "LeafD": "<- MCLeafD", "Deviations": "<- MCDev", "Cfg": "<- MCCfg",
				"Family": fmt.Sprintf("= %q", fam), "MaxDepth": "= 1", "MaxLines": map[string]string{"exc": "= 2", "def": "= 4"}[fam], "Export": "= TRUE", "Theorem": "= FALSE"},
			Invs: []string{"ExportCase"}}, func(raw []byte) error {
			if strings.HasPrefix(string(raw), `{"poolinfo"`) {
				var pi struct {
					Files map[string][]string `json:"files"`
				}
				if err := mustJSON(raw, &pi); err != nil {
					return err
				}
				files = pi.Files
				return nil
			}
			var cs AsmCase
			if err := mustJSON(raw, &cs); err != nil {
				return err
			}
			t := strings.Join(cs.Lines, "\n")
			// include-except (the include map is rebuilt from a Go map) and suffix pair lists;
			// chains of three definitions used by an entry
			// include-except (the include map is rebuilt from a Go map), suffix pair lists, exclude
			// files that interact through definitions; chains of three definitions used by an entry
			bucket := ""
			switch {
			case fam == "exc" && strings.Contains(t, " xd1"):
				bucket = "exclude files sharing definitions"
			case fam == "exc" && strings.Contains(t, "include-except f3"):
				bucket = "order-revealing word list"
			case fam == "exc" && reTwoPairs.MatchString(t):
				bucket = "several suffix pairs"
			case fam == "def" && strings.Count(t, "define") >= 2 && prefixUsesNestedDef(t):
				bucket = "definitions in a prefix line"
			case fam == "def" && strings.Count(t, "define") >= 3 && strings.Contains(t, "define r ") && strings.Contains(t, "\n{{r}}"):
				bucket = "chained definitions"
			}
			if bucket == "" || cs.Expect != "ok" || (bucket == "chained definitions" && caseHash(cs.Lines, c.Seed)%5 != 0) {
				return nil
			}
			mu.Lock()
			buckets[bucket] = append(buckets[bucket], job{what: fam + " program (" + bucket + ")", text: cs.text(), same: strings.Join(cs.Same, "\n") + "\n", root: famRoot})
			mu.Unlock()
			return nil
		})
		if err != nil {
			return err
		}
		famStates += stf.Distinct
		// a seeded sample of every bucket (TLC's enumeration order is not deterministic)
		names := make([]string, 0, len(buckets))
		for b := range buckets {
			names = append(names, b)
		}
		sort.Strings(names)
		for _, b := range names {
			l := buckets[b]
			sort.Slice(l, func(i, j int) bool {
				return caseHash([]string{l[i].text}, c.Seed) < caseHash([]string{l[j].text}, c.Seed)
			})
			c.Cov["bucket: "+b] = len(l)
			if len(l) > perFamily/len(names)+1 {
				l = l[:perFamily/len(names)+1]
			}
			jobs = append(jobs, l...)
		}
		t := Tree{}
		for p, ls := range files {
			t["regex-assembly/"+p] = fileText(p, ls)
		}
		writeTree(famRoot, t)
	}
	mixedRoot, err := c.newSandbox("c03mixed")
	if err != nil {
		return err
	}
	writeTree(mixedRoot, Tree{"regex-assembly/toolchain.yaml": "patterns:\n  anti_evasion:\n    unix: 'x|\\.'\n    windows: 'x*'\n  anti_evasion_suffix:\n    unix: '(?:\\s|$)'\n    windows: '$|x'\n  anti_evasion_no_space_suffix:\n    unix: 'x*'\n    windows: 'x?'\n"})
	for _, sh := range []string{"unix", "windows"} {
		jobs = append(jobs, job{what: "cmdline block, configuration with and without alternations", root: mixedRoot,
			text: "##!> cmdline " + sh + "\naa@\nab~\n##!<\n", same: "##!> cmdline " + sh + "\naa@\nab~\n##!<\n"})
	}
	// the same relative name in the include AND the exclude directory: the include directory wins, always
	sameRoot, err := c.newSandbox("c03same")
	if err != nil {
		return err
	}
	writeTree(sameRoot, Tree{"regex-assembly/include/tools.ra": "curl\nperl\nwget\n", "regex-assembly/exclude/tools.ra": "perl\n", "regex-assembly/exclude/fps.ra": "wget\n"})
	jobs = append(jobs, job{what: "file name present in include/ and exclude/", root: sameRoot, text: "##!> include tools\n", same: "curl\nperl\nwget\n"},
		job{what: "file name present in include/ and exclude/ (include-except)", root: sameRoot, text: "##!> include-except tools fps\n", same: "curl\nperl\n"})
	jobs = append(jobs, job{what: "white-space class followed by a range that starts at the blank (two rewrites, fixed order)", root: root,
		text: "x[\\s -/]y\n", same: "x[\\s -/]y\n"})
	jobs = append(jobs, job{what: "flag set", text: "##!+ s\n##!+ i\na.\nb\n", same: "##!+ is\na.\nb\n", root: root})
	var unstable int64
	parallel(len(jobs), 16, func(i int) {
		j := jobs[i]
		ref := gen(j.root, j.same)
		seen := map[string]int{}
		for k := 0; k < runs; k++ {
			seen[gen(j.root, j.text)]++
		}
		if len(seen) != 1 || seen[ref] != runs {
			atomic.AddInt64(&unstable, 1)
			c.violation("determinism", map[string]any{"what": j.what, "program": j.text, "runs": runs, "distinct_results": seen,
				"reference_program": j.same, "reference_result": ref,
				"why": fmt.Sprintf("%d fresh executions of generate gave %d different results (or differ from the program the spec says is equivalent)", runs, len(seen))})
		}
		c.markNontrivial(hashOf(j.text))
	})
	// Direction B: what the parser recorded in all these runs - the kind it gave every line
	// must be the kind of Classify, and the iteration orders actually taken are counted
	pft := newParseFmtTrace()
	tfiles, _ := filepath.Glob(filepath.Join(traceDir, "*.ndjson"))
	for _, f := range tfiles {
		if err := pft.add(f); err != nil {
			return err
		}
	}
	os.RemoveAll(traceDir)
	pres, err := pft.validate(c)
	if err != nil {
		return err
	}
	if !pres.Accepted {
		c.violation("trace", map[string]any{"why": "the parser classified a line differently from the specification (Classify!Kind), or several directive patterns claim it", "record": pres.BadKind})
	}
	c.Cov["recorded_line_kinds_validated"] = pres.TotalK
	c.Cov["map_orders_seen"] = len(pft.orders)
	// 4. format, update, compare from identical trees
	var treeJobs int64
	parallel(len(voc), 16, func(i int) {
		l := voc[i]
		results := map[string]int{}
		for k := 0; k < runs/3; k++ {
			d, err := c.newSandbox(fmt.Sprintf("c03t%d_%d", i, k))
			if err != nil {
				return
			}
			writeTree(d, Tree{"regex-assembly/932100.ra": "a\n" + l.Txt + "\nb\n", "regex-assembly/include/f.ra": "inc1\ninc2\n", "regex-assembly/exclude/x.ra": "inc1\n",
				"rules/REQUEST-932-X.conf": "SecRule ARGS \"@rx old\" \\\n    \"id:932100,\\\n    block\"\n"})
			r1 := c.runCLI(d, "", "-d", d, "regex", "compare", "932100")
			r2 := c.runCLI(d, "", "-d", d, "regex", "update", "932100")
			r3 := c.runCLI(d, "", "-d", d, "regex", "format", "932100")
			atomic.AddInt64(&cli, 3)
			s, _ := snapshot(d)
			results[fmt.Sprintf("compare=%d/%q update=%d format=%d rules=%q ra=%q", r1.Exit, r1.Stdout, r2.Exit, r3.Exit, s["rules/REQUEST-932-X.conf"], s["regex-assembly/932100.ra"])]++
			os.RemoveAll(d)
		}
		atomic.AddInt64(&treeJobs, 1)
		if len(results) != 1 {
			c.violation("determinism", map[string]any{"what": "compare/update/format on a file with line " + l.Txt, "distinct_results": results,
				"why": "the same tree gave different results in different processes"})
		}
	})
	// 5. format --check --all over several unformatted files: the reports come in walk order
	//    (Toolchain!FormatCheckAll is a fold over the files in walk order), the same in every run
	for _, mode := range [][]string{{}, {"-o", "github"}} {
		d, err := c.newSandbox("c03fa" + strings.Join(mode, ""))
		if err != nil {
			return err
		}
		ft := Tree{"regex-assembly/include/zz.ra": " w\n"}
		var order []string
		for k := 0; k < 6; k++ {
			n := fmt.Sprintf("93210%d.ra", k)
			ft["regex-assembly/"+n] = fmt.Sprintf("  entry%d\n", k)
			order = append(order, n)
		}
		order = append(order, "zz.ra")
		writeTree(d, ft)
		seen := map[string]int{}
		for k := 0; k < runs; k++ {
			r := c.runCLI(d, "", append(append([]string{}, mode...), "-d", d, "regex", "format", "--check", "--all")...)
			atomic.AddInt64(&cli, 1)
			var rep []string
			for _, m := range reNotFormattedAny.FindAllStringSubmatch(r.Stdout, -1) {
				rep = append(rep, m[1])
			}
			seen[fmt.Sprintf("exit=%d reported=%s", r.Exit, strings.Join(rep, ","))]++
		}
		want := "exit=1 reported=" + strings.Join(order, ",")
		if len(seen) == 1 && seen["exit=1 reported="] == runs {
			c.infra(fmt.Errorf("format --check --all: the report lines are not recognised (wording changed?)"))
		} else if len(seen) != 1 || seen[want] != runs {
			c.violation("determinism", map[string]any{"what": "format --check --all " + strings.Join(mode, " ") + " over 7 unformatted files", "distinct_results": seen, "expected": want,
				"why": "the reports of format --check --all must come in walk order, the same in every run"})
		}
		os.RemoveAll(d)
		treeJobs++
	}
	for i, j := range jobs {
		if i%(len(jobs)/4+1) == 0 {
			c.addSample(map[string]any{"what": j.what, "program": j.text, "must_equal_program": j.same, "fresh_executions": runs})
		}
	}
	c.countEval(len(jobs) + int(treeJobs))
	c.Cov["states"] = st.Distinct + famStates
	c.Cov["transitions"] = st.Generated + famStates
	c.Cov["traces_validated_against_impl"] = len(jobs) + int(treeJobs)
	c.Cov["fresh_processes_per_case"] = runs
	c.Cov["cli_executions"] = cli
	c.Cov["exhaustive"] = false
	c.Cov["rule"] = fmt.Sprintf("TLC checks for all 5040 iteration orders of the pattern map that every line of a 27-line vocabulary of multi-claimable lines (directive text inside comments, prefix/suffix values, after entries, glued keywords) is claimed by at most one pattern and gets the expected kind; each line, plus up to %d programs per family with several suffix pairs / several nested definitions (from MC_Parse) and a flag set, is compiled in %d fresh processes (Go re-randomises map iteration per process): all results must be byte-identical and equal to the result of the equivalent program the spec derives; compare/update/format on the same tree are repeated %d times; non-trivial = every case (each contains an order-relevant construct by construction)", perFamily, runs, runs/3)
	c.Assumptions = append(c.Assumptions, "iteration orders of the real process are sampled, not enumerated: a small Go map starts at a random one of 8 slots, so a pairwise inversion shows up in a given run with probability >= 1/8 (P(miss in 24 runs) < 5%, in 64 runs < 0.02%)")
	c.Summary = fmt.Sprintf("orders_x_lines=%d cases=%d runs_each=%d cli=%d", st.Distinct, len(jobs), runs, cli)
	return nil
}
