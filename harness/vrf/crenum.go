package main

import (
	"fmt"
	"os"
	"sort"
	"sync"
	"sync/atomic"
	"time"
)

func init() { register("C13", checkRenumber) }

type RenumCase struct {
	Raw     string `json:"raw"`
	Out     string `json:"out"`
	Check   bool   `json:"check"`
	Even    bool   `json:"even"`
	NIds    int    `json:"nids"`
	NTitles int    `json:"ntitles"`
}

func checkRenumber(c *Ctx) error {
	lines, thLines, keepMod := 4, 3, uint64(6)
	simNum, simDepth := 6, 10
	if c.Tier == "thorough" {
		lines, thLines, keepMod = 5, 4, 30
		simNum, simDepth = 40, 12
	}
	consts := func(n int, export, theorem bool) map[string]string {
		return map[string]string{"MaxLines": fmt.Sprintf("= %d", n), "Export": "= " + tlaBool(export), "Theorem": "= " + tlaBool(theorem)}
	}
	th, err := c.runTLC(TLCRun{Module: "MC_Renumber", Seed: c.Seed, Timeout: 30 * time.Minute,
		Constants: consts(thLines, false, true), Invs: []string{"Theorems"}}, nil)
	if err != nil {
		return fmt.Errorf("design theorems of Renumber (spec-level, says nothing about the code): %v", err)
	}
	var mu sync.Mutex
	seen := map[string]bool{}
	var cases []RenumCase
	var enumerated int64
	collect := func(mod uint64) func(raw []byte) error {
		return func(raw []byte) error {
			var rc RenumCase
			if err := mustJSON(raw, &rc); err != nil {
				return err
			}
			atomic.AddInt64(&enumerated, 1)
			if mod > 1 && caseHash([]string{rc.Raw}, c.Seed)%mod != 0 {
				return nil
			}
			mu.Lock()
			if !seen[rc.Raw] {
				seen[rc.Raw] = true
				cases = append(cases, rc)
			}
			mu.Unlock()
			return nil
		}
	}
	ex, err := c.runTLC(TLCRun{Module: "MC_Renumber", Seed: c.Seed, Timeout: 30 * time.Minute,
		Constants: consts(lines, true, false), Invs: []string{"ExportCase"}}, collect(keepMod))
	if err != nil {
		return err
	}
	if _, err := c.runTLC(TLCRun{Module: "MC_Renumber", Seed: c.Seed, Timeout: 30 * time.Minute, Workers: 4,
		Simulate: fmt.Sprintf("num=%d", simNum), Depth: simDepth,
		Constants: consts(simDepth+2, true, false), Invs: []string{"ExportCase"}}, collect(1)); err != nil {
		return err
	}
	sort.Slice(cases, func(i, j int) bool { return cases[i].Raw < cases[j].Raw })
	var pass, fail []RenumCase
	for _, rc := range cases {
		if rc.Check {
			pass = append(pass, rc)
		} else {
			fail = append(fail, rc)
		}
	}
	var cli int64
	const batch = 150
	run := func(group []RenumCase, tag string, expectCheckOK bool) {
		nb := (len(group) + batch - 1) / batch
		parallel(nb, 16, func(b int) {
			lo, hi := b*batch, (b+1)*batch
			if hi > len(group) {
				hi = len(group)
			}
			renumBatch(c, fmt.Sprintf("%s%d", tag, b), group[lo:hi], expectCheckOK, &cli)
		})
	}
	run(pass, "np", true)
	run(fail, "nf", false)
	// mixed trees: a misnumbered file that is NOT the last one walked, followed by numbered files
	// and files that are not test files at all: --check --all must still fail
	nm := len(fail)
	if nm > 40 {
		nm = 40
	}
	parallel(nm, 16, func(i int) {
		if len(pass) == 0 {
			return
		}
		root, err := c.newSandbox(fmt.Sprintf("nm%d", i))
		if err != nil {
			return
		}
		defer os.RemoveAll(root)
		good := pass[i%len(pass)]
		writeTree(root, Tree{"regex-assembly/": "",
			"tests/regression/tests/a-first/932100.yaml":  fail[i*(len(fail)/nm)].Raw,
			"tests/regression/tests/m-middle/932100.yaml": good.Raw,
			"tests/regression/tests/z-last/932100.yml":    good.Raw,
			"tests/regression/tests/z-last/zz-notes.md":   "no test here\n"})
		for _, mode := range [][]string{{}, {"-o", "github"}} {
			args := append(append([]string{"-d", root}, mode...), "util", "renumber-tests", "--check", "--all")
			r := c.runCLI(root, "", args...)
			atomic.AddInt64(&cli, 1)
			if r.Exit == 0 {
				c.violation("renumber", map[string]any{"why": "renumber-tests --check --all succeeds although the first file walked needs renumbering (later files are fine)", "mode": mode, "file": fail[i*(len(fail)/nm)].Raw})
			}
		}
	})
	// single-file command: per-file --check verdicts and the rewrite
	var singles []RenumCase
	step := len(fail)/300 + 1
	for i := 0; i < len(fail); i += step {
		singles = append(singles, fail[i])
	}
	step = len(pass)/60 + 1
	for i := 0; i < len(pass); i += step {
		singles = append(singles, pass[i])
	}
	parallel(len(singles), 16, func(i int) { renumSingle(c, fmt.Sprintf("ns%d", i), singles[i], i, &cli) })

	for i, rc := range cases {
		if i < 3 {
			c.addSample(map[string]any{"file": rc.Raw, "spec_rewritten": rc.Out, "check_must_pass": rc.Check})
		}
		if rc.NIds+rc.NTitles >= 1 && rc.Raw != rc.Out {
			c.markNontrivial(hashOf(rc.Raw))
		}
	}
	c.countEval(len(cases))
	c.Cov["states"] = th.Distinct + ex.Distinct
	c.Cov["transitions"] = th.Generated + ex.Generated
	c.Cov["theorem_states"] = th.Distinct
	c.Cov["files_enumerated"] = enumerated
	c.Cov["traces_validated_against_impl"] = len(cases)
	c.Cov["cli_executions"] = cli
	c.Cov["exhaustive"] = false
	c.Cov["rule"] = fmt.Sprintf("test files of MC_Renumber (all files of <= %d lines over 18 line shapes, 1/%d sampled, plus random files of up to %d lines); history --check / renumber / renumber / --check on the real command, bytes compared with Bytes(Apply(file)); TLC proves idempotence, numbering 1..n for files whose tests carry the same fields, preservation of other lines; non-trivial = file has an id or title line and the rewrite changes it", lines, keepMod, simDepth)
	c.Assumptions = append(c.Assumptions, "numbering is asserted where 'n-th test' is unambiguous (every test carries the same field set); for uneven mixes the spec is the line machine of processYaml itself")
	c.Summary = fmt.Sprintf("theorem_states=%d files=%d cli=%d", th.Distinct, len(cases), cli)
	return nil
}

func renumBatch(c *Ctx, name string, cs []RenumCase, expectCheckOK bool, cli *int64) {
	root, err := c.newSandbox(name)
	if err != nil {
		return
	}
	defer os.RemoveAll(root)
	t := Tree{"regex-assembly/": "", "tests/regression/tests/README.md": "test_id: 9\n", "tests/regression/tests/d0/notes.txt": "  - test_id: 9\n"}
	paths := make([]string, len(cs))
	for i, rc := range cs {
		ext := ".yaml"
		if i%3 == 1 {
			ext = ".yml"
		}
		paths[i] = fmt.Sprintf("tests/regression/tests/d%d/932100%s", i, ext)
		t[paths[i]] = rc.Raw
	}
	if err := writeTree(root, t); err != nil {
		return
	}
	before, _ := snapshot(root)
	bad := func(i int, why string, extra map[string]any) {
		d := map[string]any{"why": why, "mode": "--all batch"}
		if i >= 0 {
			d["file"] = cs[i].Raw
			d["spec_rewritten"] = cs[i].Out
		}
		for k, v := range extra {
			d[k] = v
		}
		c.violation("renumber", d)
	}
	r1 := c.runCLI(root, "", "-d", root, "util", "renumber-tests", "--check", "--all")
	atomic.AddInt64(cli, 1)
	if s, _ := snapshot(root); len(diffTrees(before, s)) > 0 {
		bad(-1, "renumber-tests --check wrote to the tree", map[string]any{"diff": diffTrees(before, s)})
	}
	if expectCheckOK && r1.Exit != 0 {
		// find the culprit(s) with the single-file command
		bad(-1, fmt.Sprintf("renumber-tests --check --all fails (exit %d) on files that the spec leaves unchanged", r1.Exit), map[string]any{"stdout": firstLine(r1.Stdout), "files": len(cs)})
	}
	if !expectCheckOK && len(cs) > 0 && r1.Exit == 0 {
		bad(0, "renumber-tests --check --all succeeds although files need renumbering", nil)
	}
	r2 := c.runCLI(root, "", "-d", root, "util", "renumber-tests", "--all")
	atomic.AddInt64(cli, 1)
	if r2.Exit != 0 {
		bad(-1, fmt.Sprintf("renumber-tests --all failed (exit %d)", r2.Exit), map[string]any{"stderr": lastLine(r2.Stderr)})
	}
	after2, _ := snapshot(root)
	for i, rc := range cs {
		if after2[paths[i]] != rc.Out {
			bad(i, "rewritten bytes differ from the spec", map[string]any{"real": after2[paths[i]]})
		}
	}
	for _, d := range diffTrees(before, after2) {
		ok := false
		for _, p := range paths {
			if d == "changed:"+p {
				ok = true
			}
		}
		if !ok {
			bad(-1, "renumber-tests --all touched something that is not a test file", map[string]any{"diff": d})
		}
	}
	r3 := c.runCLI(root, "", "-d", root, "util", "renumber-tests", "--all")
	atomic.AddInt64(cli, 1)
	after3, _ := snapshot(root)
	if d := diffTrees(after2, after3); len(d) > 0 || r3.Exit != 0 {
		bad(-1, "renumbering twice is not the same as once", map[string]any{"diff": d})
	}
	r4 := c.runCLI(root, "", "-d", root, "util", "renumber-tests", "--check", "--all")
	atomic.AddInt64(cli, 1)
	if r4.Exit != 0 {
		bad(-1, "renumber-tests --check fails right after renumbering", map[string]any{"stdout": firstLine(r4.Stdout)})
	}
}

func renumSingle(c *Ctx, name string, rc RenumCase, i int, cli *int64) {
	root, err := c.newSandbox(name)
	if err != nil {
		return
	}
	defer os.RemoveAll(root)
	ext := ".yaml"
	if i%2 == 1 {
		ext = ".yml"
	}
	p := "tests/regression/tests/REQUEST-932-APPLICATION-ATTACK-RCE/932100" + ext
	t := Tree{"regex-assembly/": "", p: rc.Raw, "tests/regression/tests/REQUEST-932-APPLICATION-ATTACK-RCE/932101.yaml": "  - test_id: 4\n"}
	if err := writeTree(root, t); err != nil {
		return
	}
	before, _ := snapshot(root)
	bad := func(why string, extra map[string]any) {
		d := map[string]any{"why": why, "mode": "single file", "file": rc.Raw, "spec_rewritten": rc.Out}
		for k, v := range extra {
			d[k] = v
		}
		c.violation("renumber", d)
	}
	arg := "932100"
	if i%4 >= 2 {
		arg = "932100" + ext
	}
	r1 := c.runCLI(root, "", "-d", root, "util", "renumber-tests", "--check", arg)
	atomic.AddInt64(cli, 1)
	if (r1.Exit == 0) != rc.Check {
		bad(fmt.Sprintf("renumber-tests --check exit %d, spec: unchanged=%v", r1.Exit, rc.Check), nil)
	}
	if s, _ := snapshot(root); len(diffTrees(before, s)) > 0 {
		bad("renumber-tests --check wrote to the tree", map[string]any{"diff": diffTrees(before, s)})
	}
	r2 := c.runCLI(root, "", "-d", root, "util", "renumber-tests", arg)
	atomic.AddInt64(cli, 1)
	after, _ := snapshot(root)
	if r2.Exit != 0 {
		bad(fmt.Sprintf("renumber-tests failed (exit %d)", r2.Exit), map[string]any{"stderr": lastLine(r2.Stderr)})
		return
	}
	if after[p] != rc.Out {
		bad("rewritten bytes differ from the spec", map[string]any{"real": after[p]})
	}
	for _, d := range diffTrees(before, after) {
		if d != "changed:"+p {
			bad("renumber-tests touched a file other than its target", map[string]any{"diff": d})
		}
	}
	r3 := c.runCLI(root, "", "-d", root, "util", "renumber-tests", "--check", arg)
	atomic.AddInt64(cli, 1)
	if r3.Exit != 0 {
		bad("renumber-tests --check fails right after renumbering", nil)
	}
}
