package main

import (
	"bufio"
	"context"
	"encoding/json"
	"fmt"
	"io"
	"os"
	"os/exec"
	"path/filepath"
	"regexp"
	"runtime"
	"sort"
	"strconv"
	"strings"
	"time"
)

// TLCRun describes one invocation of TLC.
type TLCRun struct {
	Module     string            // MC module name (file Module.tla in /verif/spec)
	Constants  map[string]string // cfg CONSTANTS: name -> "= value" or "<- Op"
	Spec       string            // SPECIFICATION (default Spec)
	Invs       []string
	Props      []string
	Post       string // POSTCONDITION
	View       string
	Constraint string
	Simulate   string // e.g. "num=2000" ; empty: exhaustive BFS
	Depth      int
	Workers    int
	Timeout    time.Duration
	Seed       int64
	ExtraFiles map[string]string // additional files to place next to the spec (traces)
	DFS        bool              // use the depth-first state queue (trace validation)
}

// TLCStats is what TLC reported at the end.
type TLCStats struct {
	Generated         int64
	Distinct          int64
	Depth             int
	Seconds           float64
	Output            string // tail of the output (diagnostics)
	InvariantViolated string
}

var reStates = regexp.MustCompile(`^(\d+) states generated, (\d+) distinct states found`)
var reDepth = regexp.MustCompile(`^The depth of the complete state graph search is (\d+)`)
var reInv = regexp.MustCompile(`^Error: Invariant (\S+) is violated`)

// runTLC runs TLC in a scratch copy of /verif/spec.  Every line TLC prints
// that is a quoted JSON object (PrintT(ToJson(..))) is handed to onCase.
func (c *Ctx) runTLC(r TLCRun, onCase func(raw []byte) error) (*TLCStats, error) {
	dir := filepath.Join(c.Scratch, "tlc-"+r.Module+"-"+strconv.FormatInt(time.Now().UnixNano(), 36))
	if err := os.MkdirAll(dir, 0o755); err != nil {
		return nil, err
	}
	defer os.RemoveAll(dir)
	files, _ := filepath.Glob(filepath.Join(verifRoot, "spec", "*.tla"))
	for _, f := range files {
		b, err := os.ReadFile(f)
		if err != nil {
			return nil, err
		}
		if err := os.WriteFile(filepath.Join(dir, filepath.Base(f)), b, 0o644); err != nil {
			return nil, err
		}
	}
	for name, content := range r.ExtraFiles {
		if err := os.WriteFile(filepath.Join(dir, name), []byte(content), 0o644); err != nil {
			return nil, err
		}
	}
	var cfg strings.Builder
	spec := r.Spec
	if spec == "" {
		spec = "Spec"
	}
	fmt.Fprintf(&cfg, "SPECIFICATION %s\n", spec)
	if len(r.Constants) > 0 {
		cfg.WriteString("CONSTANTS\n")
		keys := make([]string, 0, len(r.Constants))
		for k := range r.Constants {
			keys = append(keys, k)
		}
		sort.Strings(keys)
		for _, k := range keys {
			fmt.Fprintf(&cfg, "  %s %s\n", k, r.Constants[k])
		}
	}
	for _, i := range r.Invs {
		fmt.Fprintf(&cfg, "INVARIANT %s\n", i)
	}
	for _, p := range r.Props {
		fmt.Fprintf(&cfg, "PROPERTY %s\n", p)
	}
	if r.Post != "" {
		fmt.Fprintf(&cfg, "POSTCONDITION %s\n", r.Post)
	}
	if r.View != "" {
		fmt.Fprintf(&cfg, "VIEW %s\n", r.View)
	}
	if r.Constraint != "" {
		fmt.Fprintf(&cfg, "CONSTRAINT %s\n", r.Constraint)
	}
	cfg.WriteString("CHECK_DEADLOCK FALSE\n")
	if err := os.WriteFile(filepath.Join(dir, r.Module+".cfg"), []byte(cfg.String()), 0o644); err != nil {
		return nil, err
	}
	// VERIF_KEEP_CFG=<dir>: keep a copy of every configuration (to run TLC by hand, see spec/README.md)
	if keep := os.Getenv("VERIF_KEEP_CFG"); keep != "" && len(r.ExtraFiles) == 0 {
		os.MkdirAll(keep, 0o755)
		h := hashOf(cfg.String() + r.Simulate)[:6]
		head := fmt.Sprintf("\\* %s, %s tier; run: tlc -config cfg/%s.%s.%s.cfg %s.tla", c.ID, c.Tier, c.ID, r.Module, h, r.Module)
		if r.Simulate != "" {
			head += fmt.Sprintf(" -simulate %s -depth %d", r.Simulate, r.Depth)
		}
		os.WriteFile(filepath.Join(keep, fmt.Sprintf("%s.%s.%s.cfg", c.ID, r.Module, h)), []byte(head+"\n"+cfg.String()), 0o644)
	}
	workers := r.Workers
	if workers == 0 {
		workers = runtime.NumCPU()
	}
	args := []string{"-XX:+UseParallelGC", "-Xss64m"}
	if r.DFS {
		args = append(args, "-Dtlc2.tool.queue.IStateQueue=StateDeque")
	}
	args = append(args, "-cp", "/opt/veriftools/tla/tla2tools.jar:/opt/veriftools/tla/CommunityModules-deps.jar",
		"tlc2.TLC", "-workers", strconv.Itoa(workers), "-metadir", filepath.Join(dir, "meta"), "-seed", strconv.FormatInt(r.Seed, 10))
	if r.Simulate != "" {
		args = append(args, "-simulate", r.Simulate)
		if r.Depth > 0 {
			args = append(args, "-depth", strconv.Itoa(r.Depth))
		}
	}
	args = append(args, r.Module+".tla")
	to := r.Timeout
	if to == 0 {
		to = 10 * time.Minute
	}
	ctx, cancel := context.WithTimeout(context.Background(), to)
	defer cancel()
	cmd := exec.CommandContext(ctx, "java", args...)
	cmd.Dir = dir
	stdout, err := cmd.StdoutPipe()
	if err != nil {
		return nil, err
	}
	cmd.Stderr = cmd.Stdout
	start := time.Now()
	if err := cmd.Start(); err != nil {
		return nil, err
	}
	st := &TLCStats{}
	var tail []string
	rd := bufio.NewReaderSize(stdout, 1<<20)
	var cbErr error
	for {
		line, err := rd.ReadBytes('\n')
		if len(line) > 0 {
			l := strings.TrimRight(string(line), "\r\n")
			if strings.HasPrefix(l, `"{`) {
				if cbErr == nil && onCase != nil {
					s, uerr := strconv.Unquote(l)
					if uerr != nil {
						cbErr = fmt.Errorf("cannot unquote TLC output line: %v", uerr)
					} else if e := onCase([]byte(s)); e != nil {
						cbErr = e
					}
				}
			} else {
				if m := reStates.FindStringSubmatch(l); m != nil {
					st.Generated, _ = strconv.ParseInt(m[1], 10, 64)
					st.Distinct, _ = strconv.ParseInt(m[2], 10, 64)
				} else if m := reDepth.FindStringSubmatch(l); m != nil {
					st.Depth, _ = strconv.Atoi(m[1])
				} else if m := reInv.FindStringSubmatch(l); m != nil {
					st.InvariantViolated = m[1]
				}
				if !strings.HasPrefix(l, "Semantic processing") && !strings.HasPrefix(l, "Linting") && !strings.HasPrefix(l, "Parsing file") {
					tail = append(tail, l)
					if len(tail) > 60 {
						tail = tail[1:]
					}
				}
			}
		}
		if err != nil {
			if err != io.EOF {
				cbErr = err
			}
			break
		}
	}
	werr := cmd.Wait()
	st.Seconds = time.Since(start).Seconds()
	st.Output = strings.Join(tail, "\n")
	if ctx.Err() != nil {
		return st, fmt.Errorf("TLC %s timed out after %v", r.Module, to)
	}
	if cbErr != nil {
		return st, cbErr
	}
	if werr != nil {
		// exit 12 = safety violation, 13 = liveness, others = errors
		return st, fmt.Errorf("TLC %s failed (%v):\n%s", r.Module, werr, st.Output)
	}
	if r.Simulate == "" && st.Distinct == 0 {
		return st, fmt.Errorf("TLC %s reported no states:\n%s", r.Module, st.Output)
	}
	return st, nil
}

func mustJSON(raw []byte, v any) error {
	if err := json.Unmarshal(raw, v); err != nil {
		return fmt.Errorf("bad JSON from TLC: %v: %.200s", err, raw)
	}
	return nil
}
