package main

import (
	"fmt"
	"os"
	"sort"
	"strings"
	"sync"
	"sync/atomic"
	"time"
)

func init() { register("C19", checkC19) }

var fuzzBytes = map[string]string{"NL": "\n", "CR": "\r", "CTRL1": "\x01", "NUL": "\x00", "UTF8": "é", "BAD8": "\xff\xfe",
	"DEFSELF": "\n##!> define x {{x}}\n", "DEFGROW": "\n##!> define x a{{x}}\n", "DEFCYC1": "\n##!> define x {{y}}\n", "DEFCYC2": "\n##!> define y b{{x}}\n",
	"DEFOK": "\n##!> define x b+\n", "STOREX": "\n##!=< x\n", "LOADX": "\n##!=> x\n", "INCLF": "\n##!> include f\n", "CMDUNIX": "\n##!> cmdline unix\n", "ENDBLK": "\n##!<\n",
	"INCLDEL": "\n##!> include f -- @ \"\"\n", "INCLQUOTE": "\n##!> include f -- c \"\n", "INCLSELF": "\n##!> include t\n"}

func checkC19(c *Ctx) error {
	exLen, simNum, simDepth, keepMod := 2, 3, 12, uint64(1)
	if c.Tier == "thorough" {
		exLen, simNum, simDepth, keepMod = 3, 20, 25, 4
	}
	var mu sync.Mutex
	seen := map[string]bool{}
	var texts []string
	var enumerated int64
	collect := func(mod uint64) func(raw []byte) error {
		return func(raw []byte) error {
			var v struct {
				Toks []string `json:"toks"`
			}
			if err := mustJSON(raw, &v); err != nil {
				return err
			}
			atomic.AddInt64(&enumerated, 1)
			var sb strings.Builder
			for _, t := range v.Toks {
				if b, ok := fuzzBytes[t]; ok {
					sb.WriteString(b)
				} else {
					sb.WriteString(t)
				}
			}
			s := sb.String()
			if mod > 1 && caseHash([]string{s}, c.Seed)%mod != 0 {
				return nil
			}
			mu.Lock()
			if !seen[s] {
				seen[s] = true
				texts = append(texts, s)
			}
			mu.Unlock()
			return nil
		}
	}
	consts := func(n int) map[string]string {
		return map[string]string{"MaxTokens": fmt.Sprintf("= %d", n), "Export": "= TRUE"}
	}
	ex, err := c.runTLC(TLCRun{Module: "MC_Fuzz", Seed: c.Seed, Timeout: 30 * time.Minute,
		Constants: consts(exLen), Invs: []string{"Total", "ExportCase"}}, collect(keepMod))
	if err != nil {
		return err
	}
	if _, err := c.runTLC(TLCRun{Module: "MC_Fuzz", Seed: c.Seed, Timeout: 30 * time.Minute, Workers: 4,
		Simulate: fmt.Sprintf("num=%d", simNum), Depth: simDepth,
		Constants: consts(simDepth + 2), Invs: []string{"ExportCase"}}, collect(40)); err != nil {
		return err
	}
	sort.Strings(texts)
	// the passes that index into the regex text guided by pattern matches (the anchor of this
	// property), as a character-level transcription: never out of range on well-formed text,
	// the unbounded loop terminates (MC_Cleanup: NoCrash, Terminates), and the real passes agree
	// with the transcription byte for byte, crash for crash, on every enumerated text
	cleanLen := "4"
	if c.Tier == "thorough" {
		cleanLen = "5"
	}
	if _, err := cleanupConformance(c, cleanLen); err != nil {
		return err
	}
	root, err := c.newSandbox("fuzz")
	if err != nil {
		return err
	}
	os.MkdirAll(root+"/regex-assembly/include", 0o755)
	os.WriteFile(root+"/regex-assembly/include/f.ra", []byte("inc\n@\n"), 0o644)
	os.WriteFile(root+"/regex-assembly/include/x.ra", []byte("inc\n"), 0o644)
	var cli, crashes int64
	classes := map[string]int{}
	var cmu sync.Mutex
	judge := func(text, where string, r CLIResult) {
		class := "regex"
		switch {
		case r.TimedOut:
			class = "HANG"
		case r.Exit == 0:
		case r.Exit == 1:
			class = "error"
		case r.Exit == 2 && strings.Contains(r.Stderr, "panic:") && !strings.Contains(r.Stderr, "runtime error") && !strings.Contains(r.Stderr, "fatal error:") && !strings.Contains(r.Stderr, "[signal "):
			class = "diagnostic"
		default:
			class = "CRASH"
		}
		cmu.Lock()
		classes[class]++
		cmu.Unlock()
		if class == "HANG" || class == "CRASH" {
			atomic.AddInt64(&crashes, 1)
			c.violation("crash", map[string]any{"input": text, "where": where, "exit": r.Exit, "timed_out": r.TimedOut,
				"why":    "generate ended with a runtime fault or did not terminate",
				"stderr": firstPanicLines(r.Stderr)})
		}
	}
	compiled := map[string]string{} // text -> expression, for the commands built on generate
	parallel(len(texts), 16, func(i int) {
		t := texts[i]
		r := c.runCLIEnv(root, t, nil, 10*time.Second, "-d", root, "regex", "generate", "-")
		atomic.AddInt64(&cli, 1)
		judge(t, "stdin", r)
		if r.Exit == 0 && !r.TimedOut && r.Stdout != "" {
			cmu.Lock()
			compiled[t] = r.Stdout
			cmu.Unlock()
		}
		if i%4 == 0 {
			// the same text as an include file
			dir, err := c.newSandbox(fmt.Sprintf("fz%d", i))
			if err != nil {
				return
			}
			os.MkdirAll(dir+"/regex-assembly/include", 0o755)
			os.WriteFile(dir+"/regex-assembly/include/t.ra", []byte(t), 0o644)
			os.WriteFile(dir+"/regex-assembly/include/f.ra", []byte("inc\n"), 0o644)
			r2 := c.runCLIEnv(dir, "a\n##!> include t\n", nil, 10*time.Second, "-d", dir, "regex", "generate", "-")
			atomic.AddInt64(&cli, 1)
			judge(t, "include file", r2)
			os.RemoveAll(dir)
		}
	})
	// the commands built on generate (compare with its report of the first difference, update): the
	// longest expressions and a seeded sample, against a rules file whose stored operand is short
	var ctexts []string
	for t := range compiled {
		ctexts = append(ctexts, t)
	}
	sort.Slice(ctexts, func(i, j int) bool {
		if len(compiled[ctexts[i]]) != len(compiled[ctexts[j]]) {
			return len(compiled[ctexts[i]]) > len(compiled[ctexts[j]])
		}
		return ctexts[i] < ctexts[j]
	})
	var pick []string
	for i, t := range ctexts {
		if i < 120 || caseHash([]string{t}, c.Seed)%uint64(len(ctexts)/120+1) == 0 {
			pick = append(pick, t)
		}
	}
	var built int64
	parallel(len(pick), 16, func(i int) {
		t := pick[i]
		d, err := c.newSandbox(fmt.Sprintf("fzc%d", i))
		if err != nil {
			return
		}
		defer os.RemoveAll(d)
		// the stored operand is much shorter or much longer than the generated one (the report of the
		// first difference walks both in chunks)
		stored := "oldfoo"
		if i%2 == 1 {
			stored = strings.Repeat("x", 123)
		}
		writeTree(d, Tree{"regex-assembly/932100.ra": t, "regex-assembly/include/f.ra": "inc\n", "regex-assembly/include/x.ra": "inc\n",
			"rules/REQUEST-932-X.conf": "SecRule ARGS \"@rx " + stored + "\" \\\n    \"id:932100,\\\n    block\"\n"})
		for _, args := range [][]string{{"regex", "compare", "932100"}, {"-o", "github", "regex", "compare", "--all"}, {"regex", "compare", "--all"}, {"regex", "update", "932100"}} {
			r := c.runCLIEnv(d, "", nil, 10*time.Second, append([]string{"-d", d}, args...)...)
			atomic.AddInt64(&cli, 1)
			atomic.AddInt64(&built, 1)
			judge(t, strings.Join(args, " "), r)
		}
	})
	c.Cov["runs_of_commands_built_on_generate"] = built
	for i, t := range texts {
		if i%(len(texts)/4+1) == 0 {
			c.addSample(map[string]any{"input": t})
		}
		if len(t) >= 2 {
			c.markNontrivial(t)
		}
	}
	c.Level = "exploration"
	c.countEval(len(texts))
	c.Cov["states"] = ex.Distinct
	c.Cov["transitions"] = ex.Generated
	c.Cov["texts_enumerated"] = enumerated
	c.Cov["cli_executions"] = cli
	c.Cov["outcome_classes"] = classes
	c.Cov["exhaustive"] = false
	c.Cov["rule"] = "design level: MC_Cleanup proves NoCrash and Terminates for the character-level transcription of the clean-up passes on all texts up to the bound over 10 characters, and the real passes are compared with it on each of them; " + fmt.Sprintf("texts are token sequences generated by TLC from MC_Fuzz (86 tokens: directive fragments, metacharacters, escapes incl. the escaped-parenthesis-flag family and \\Q quoting that ends in an open bracket, braces, quotes, NUL/control/non-ASCII/invalid UTF-8 bytes): all sequences of <= %d tokens (1/%d sampled) plus random sequences up to %d tokens; each text goes to `generate -` and every 4th also into an include file; the longest expressions and a sample also go through compare (text and github, single and --all) and update against a rules file with a short stored operand; allowed: exit 0, exit 1, or exit 2 with a deliberate panic message; a runtime error, a Go fatal error, a signal or no termination within 10 s is a violation; non-trivial = text of at least 2 bytes, distinct by text", exLen, keepMod, simDepth)
	c.Summary = fmt.Sprintf("texts=%d cli=%d classes=%v", len(texts), cli, classes)
	return nil
}

func firstPanicLines(s string) string {
	i := strings.Index(s, "panic:")
	if i < 0 {
		i = strings.Index(s, "fatal error:")
	}
	if i < 0 {
		return lastLine(s)
	}
	s = s[i:]
	ls := strings.SplitN(s, "\n", 12)
	if len(ls) > 11 {
		ls = ls[:11]
	}
	return strings.Join(ls, "\n")
}
