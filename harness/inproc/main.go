// inproc is a batch worker that links the packages of the repository under
// test and runs the assembler in-process: one JSON request per input line,
// one JSON reply per output line.  It is an accelerator only: every
// disagreement it produces is re-executed through the real CLI binary before
// it counts.  If the code under test terminates the process (logger.Fatal),
// the supervisor notices the missing reply and falls back to the CLI.
package main

import (
	"bufio"
	"encoding/json"
	"fmt"
	"os"

	"github.com/rs/zerolog"

	"github.com/coreruleset/crs-toolchain/v2/context"
	"github.com/coreruleset/crs-toolchain/v2/regex/operators"
	"github.com/coreruleset/crs-toolchain/v2/regex/processors"
)

type req struct {
	ID   int64  `json:"id"`
	Root string `json:"root"`
	Text string `json:"text"`
	Mode string `json:"mode,omitempty"` // "" = compile; "cleanup" = only the string-level clean-up passes
}

type rep struct {
	ID    int64  `json:"id"`
	Out   string `json:"out"`
	Err   string `json:"err,omitempty"`
	Panic string `json:"panic,omitempty"`
}

func run(r req) (res rep) {
	res.ID = r.ID
	defer func() {
		if p := recover(); p != nil {
			res.Panic = fmt.Sprint(p)
		}
	}()
	rootContext := context.New(r.Root, "toolchain.yaml")
	ctxt := processors.NewContext(rootContext)
	if r.Mode == "cleanup" {
		res.Out = operators.VerifCleanup(ctxt, r.Text)
		return res
	}
	assembler := operators.NewAssembler(ctxt)
	out, err := assembler.Run(r.Text)
	res.Out = out
	if err != nil {
		res.Err = err.Error()
	}
	return res
}

func main() {
	// keep fatal and panic events alive: they end the run exactly as in the CLI (os.Exit / panic)
	zerolog.SetGlobalLevel(zerolog.FatalLevel)
	in := bufio.NewReaderSize(os.Stdin, 1<<20)
	out := bufio.NewWriter(os.Stdout)
	enc := json.NewEncoder(out)
	dec := json.NewDecoder(in)
	for {
		var r req
		if err := dec.Decode(&r); err != nil {
			return
		}
		_ = enc.Encode(run(r))
		out.Flush()
	}
}
