---------------------------- MODULE MC_Renumber ----------------------------
EXTENDS Renumber, Json
CONSTANTS MaxLines, Export, Theorem
VARIABLE lines
vars == <<lines>>
Rule == "932100"
CR(l) == [l EXCEPT !.cr = TRUE]
Voc == <<
  IdLine("  - ", " ", "5"), IdLine("    ", "   ", "abc-7"), IdLine("- ", " ", "1"), CR(IdLine("  - ", "\t", "2  ")),
  TitleLine("    ", " ", "932100-7"), TitleLine("  - ", "  ", "\"legacy title\""), CR(TitleLine("    ", " ", "932100-1")),
  OtherLine("---"), OtherLine("meta:"), OtherLine("  desc: plain text"), OtherLine("      uri: \"/get?x=1\"   "),
  OtherLine("  # a comment"), OtherLine("      uri: \"/?q=%20a%%s%d\""), CR(OtherLine("      data: a:b")), OtherLine("tests:"),
  BlankLine(""), BlankLine("   "), BlankLine("\t"), CR(BlankLine(""))
>>
File1(fnl) == TFile([i \in 1..Len(lines) |-> Voc[lines[i]]], fnl)
Init == lines = <<>>
Next == Len(lines) < MaxLines /\ \E i \in 1..Len(Voc) : lines' = Append(lines, i)
Spec == Init /\ [][Next]_vars

Thm(f) == LET g == Apply(f, Rule) IN
          /\ Apply(g, Rule) = g                                   \* idempotent
          /\ CheckOK(g, Rule)                                     \* --check accepts what a rewrite produced
          /\ (Even(f) => Numbered(g, Rule))                       \* n-th id is n, n-th title is <rule>-n
          /\ OthersKept(f, g)                                     \* other lines untouched
          /\ g.lines # <<>> => (g.fnl /\ ~IsBlank(g.lines[Len(g.lines)]))
          /\ \A i \in 1..Len(g.lines) : ~g.lines[i].cr
Theorems == Theorem => (Thm(File1(TRUE)) /\ Thm(File1(FALSE)))

Case(f) == [raw |-> Bytes(f), out |-> Bytes(Apply(f, Rule)), check |-> CheckOK(f, Rule), even |-> Even(f),
            nids |-> Len(Ids(f.lines)), ntitles |-> Len(Titles(f.lines))]
ExportCase == Export => /\ PrintT(ToJson(Case(File1(TRUE))))
                        /\ (Len(lines) > 0 => PrintT(ToJson(Case(File1(FALSE)))))
=============================================================================
