---------------------------- MODULE MC_Copyright ----------------------------
(***************************************************************************)
(* C14: histories of 1..MaxRuns invocations over every accepted version    *)
(* spelling, on files that contain each marker kind 0..2 times.             *)
(***************************************************************************)
EXTENDS Copyright, Json
CONSTANTS MaxRuns, Export, Theorem
VARIABLES fileIx, cur, hist, outs
vars == <<fileIx, cur, hist, outs>>

Versions == << "4.0.0", "4.1.0-rc1", "4.2.0-RC1", "v4.3.0", "4.4", "4.5.0+build.7", "4.6.0-dev-12-gabc123" >>
Years    == << "2024", "2031" >>

Files == <<
  << Txt("# ------------------------------------------------------------------------"),
     Hdr("ModSecurity Core Rule Set", "3.3.2"), Cpy("2022", "Core Rule Set"), Txt(""),
     Txt("SecRule ARGS \"@rx x\" \\"), Txt("    \"id:901001,\\"), Ver("    ", "3.3.2", "',\\"), Txt("    severity:'CRITICAL'\"") >>,
  << Hdr("CRS", "4.0.0-rc2"), Cpy("2023", "CRS"), Sig("4.0.0-rc2", "\""),
     Setup("    ", "400", "\""), Ver("    ", "4.0.0-rc2", "',\\"), Ver("  ", "4.0.0-rc2", "'\""),
     Txt("# Copyright (c) 2020-2023 CRS project. All rights reserved."),
     Txt("#  OWASP CRS ver.9.9.9"), Txt("    ver:\"OWASP_CRS/9.9.9\",\\") >>,
  << Txt("# no markers in this file"), Txt(""), Txt("SecAction \"id:900990,setvar:tx.crs_setup_ver=1\"") >>,
  << Sig("4.7.0", "\""), Sig("4.7.0", "\" # trailing"), Setup("  \"id:1,", "470", ",pass\""), Setup("", "470", "") >>,
  \* markers inside commented-out directives (crs-setup.conf.example is mostly such blocks)
  << Hdr("CRS", "4.3.0"), Txt("#SecAction \\"), Txt("#    \"id:900990,\\"), Ver("#    ", "4.3.0", "',\\"),
     Setup("#    ", "430", "\""), Ver("# ", "4.3.0", "'\""), Cpy("2024", "CRS") >>,
  \* files that consist of ONE line (index 6 with, index 7 without a final newline)
  << Sig("4.0.0", "\"") >>,
  << Sig("4.0.0", "\"") >>,
  \* a file that ends in blank lines (they are text like any other)
  << Hdr("CRS", "4.0.0"), Txt(""), Txt("") >>
>>

Init == /\ fileIx \in 1..Len(Files) /\ cur = Files[fileIx] /\ hist = <<>> /\ outs = <<>>
Invoke(V, Y) == /\ Len(hist) < MaxRuns
                /\ cur' = Apply(cur, V, Y)
                /\ hist' = Append(hist, <<V, Y>>)
                /\ outs' = Append(outs, BytesOf(Apply(cur, V, Y), 1, TRUE))
                /\ UNCHANGED fileIx
Next == \E v \in 1..Len(Versions), y \in 1..Len(Years) : Invoke(Versions[v], Years[y])
Spec == Init /\ [][Next]_vars

Last == hist[Len(hist)]
\* after every invocation all markers show that invocation's version and year,
\* the result does not depend on earlier invocations, and repeating it changes nothing
Theorems == (Theorem /\ hist # <<>>) =>
    /\ Shows(cur, Last[1], Last[2])
    /\ cur = Apply(Files[fileIx], Last[1], Last[2])
    /\ Apply(cur, Last[1], Last[2]) = cur

Case == [orig |-> BytesOf(Files[fileIx], 1, fileIx % 2 = 0), hist |-> hist, outs |-> outs, file |-> fileIx, crlf |-> FALSE]
\* The same file with CR LF line ends.  The statement does not say whether the line ends survive
\* (the code writes LF); `outs' are therefore compared modulo line ends for these cases - every marker
\* must still show V and Y, every other character must stay.
RECURSIVE CrLf(_)
CrLf(s) == IF s = "" THEN "" ELSE (IF SubSeq(s, 1, 1) = "\n" THEN "\r\n" ELSE SubSeq(s, 1, 1)) \o CrLf(Tail(s))
CaseCR == [Case EXCEPT !.orig = CrLf(BytesOf(Files[fileIx], 1, TRUE)), !.crlf = TRUE]
ExportCase == (Export /\ hist # <<>>) => (PrintT(ToJson(Case)) /\ PrintT(ToJson(CaseCR)))
=============================================================================
