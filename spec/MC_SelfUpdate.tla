--------------------------- MODULE MC_SelfUpdate ---------------------------
EXTENDS SelfUpdate, Json
CONSTANTS MaxReleases, Export

\* version codes: 9 = v0.9.0, 10 = v1.0.0, 20 = v2.0.0, 30 = v3.0.0
Pool == {
  Rel(20, FALSE, FALSE, "good", "match"),
  Rel(20, FALSE, FALSE, "good", "mismatch"),
  Rel(20, FALSE, FALSE, "good", "otherfile"),
  Rel(20, FALSE, FALSE, "good", "malformed"),
  Rel(20, FALSE, FALSE, "good", "missing"),
  Rel(20, FALSE, FALSE, "corrupt", "match"),
  Rel(20, FALSE, FALSE, "badmember", "match"),
  Rel(20, FALSE, FALSE, "none", "match"),
  Rel(20, FALSE, FALSE, "otherarch", "match"),
  Rel(20, FALSE, FALSE, "archfirst", "match"),
  Rel(30, FALSE, FALSE, "otherarch", "match"),
  Rel(30, TRUE,  FALSE, "good", "match"),
  Rel(30, FALSE, TRUE,  "good", "match"),
  Rel(30, FALSE, FALSE, "none", "match"),
  Rel(30, FALSE, FALSE, "good", "mismatch"),
  Rel(10, FALSE, FALSE, "good", "match"),
  Rel(9,  FALSE, FALSE, "good", "match"),
  Rel(9,  FALSE, FALSE, "good", "mismatch")
}
\* catalogues: sequences without two releases of the same version
MCCatalogues == { <<>> } \cup { <<a>> : a \in Pool }
                \cup (IF MaxReleases >= 2 THEN { <<p[1], p[2]>> : p \in { q \in Pool \X Pool : q[1].ver # q[2].ver } } ELSE {})
MCRunnings == {10, 0}
MCFaults   == {"none", "list-500", "list-reset", "list-badjson", "asset-500", "asset-reset", "asset-truncate", "sums-500"}

Outcome == IF out = "updated" THEN [exe |-> exe, ok |-> TRUE]
           ELSE IF out = "no-update" THEN [exe |-> 0, ok |-> TRUE]
           ELSE [exe |-> 0, ok |-> FALSE]
ExportCase == (Export /\ pc = "done") =>
    PrintT(ToJson([cat |-> Catalogue, running |-> Running, fault |-> Fault, allowed |-> Outcome, why |-> out]))
=============================================================================
