--------------------------- MODULE MC_SelfUpdate ---------------------------
EXTENDS SelfUpdate, Json
CONSTANTS MaxReleases, Export

\* version codes: V(major, minor, patch) orders like semantic versions as long as every part is below 100;
\* VPre is the pre-release x.y.z-rc.1 of that version: above every lower release, below x.y.z itself
V(ma, mi, pa)    == (ma * 10000 + mi * 100 + pa) * 10 + 9
VPre(ma, mi, pa) == (ma * 10000 + mi * 100 + pa) * 10 + 1
Pool == {
  Rel(V(2,0,0), FALSE, FALSE, "good", "match"),
  Rel(V(2,0,0), FALSE, FALSE, "good", "mismatch"),
  Rel(V(2,0,0), FALSE, FALSE, "good", "otherfile"),
  Rel(V(2,0,0), FALSE, FALSE, "good", "malformed"),
  Rel(V(2,0,0), FALSE, FALSE, "good", "missing"),
  Rel(V(2,0,0), FALSE, FALSE, "corrupt", "match"),
  Rel(V(2,0,0), FALSE, FALSE, "badmember", "match"),
  Rel(V(2,0,0), FALSE, FALSE, "none", "match"),
  Rel(V(2,0,0), FALSE, FALSE, "otherarch", "match"),
  Rel(V(2,0,0), FALSE, FALSE, "archfirst", "match"),
  Rel(V(3,0,0), FALSE, FALSE, "otherarch", "match"),
  Rel(V(3,0,0), TRUE,  FALSE, "good", "match"),
  Rel(V(3,0,0), FALSE, TRUE,  "good", "match"),
  Rel(V(3,0,0), FALSE, FALSE, "none", "match"),
  Rel(V(3,0,0), FALSE, FALSE, "good", "mismatch"),
  Rel(V(1,0,0), FALSE, FALSE, "good", "match"),
  Rel(V(0,9,0), FALSE, FALSE, "good", "match"),
  Rel(V(0,9,0), FALSE, FALSE, "good", "mismatch"),
  \* parts with two digits: numeric, not textual order (v2.0.5 < v2.0.12 < v2.0.13 < v2.10.0)
  Rel(V(2,0,5),  FALSE, FALSE, "good", "match"),
  Rel(V(2,0,12), FALSE, FALSE, "good", "match"),
  Rel(V(2,0,13), FALSE, FALSE, "good", "match"),
  Rel(V(2,10,0), FALSE, FALSE, "good", "mismatch"),
  Rel(V(2,0,0), FALSE, FALSE, "tgz", "match"),
  Rel(V(2,0,0), FALSE, FALSE, "tgz", "mismatch"),
  Rel(V(2,0,0), FALSE, FALSE, "tgz", "otherfile")
}
\* catalogues: sequences without two releases of the same version
MCCatalogues == { <<>> } \cup { <<a>> : a \in Pool }
                \cup (IF MaxReleases >= 2 THEN { <<p[1], p[2]>> : p \in { q \in Pool \X Pool : q[1].ver # q[2].ver } } ELSE {})
\* the running executable: releases, a pre-release build that is newer than most releases, a development build
MCRunnings == {V(1,0,0), V(2,0,12), VPre(2,1,0), 0}
MCCmds     == {"self-update", "version"}
MCFaults   == {"none", "list-500", "list-reset", "list-badjson", "asset-500", "asset-reset", "asset-truncate", "sums-500"}

Outcome == IF Cmd = "version" THEN [exe |-> 0, ok |-> TRUE, latest |-> IF out = "latest" THEN Catalogue[sel].ver ELSE 0]
           ELSE IF out = "updated" THEN [exe |-> exe, ok |-> TRUE]
           ELSE IF out = "no-update" THEN [exe |-> 0, ok |-> TRUE]
           ELSE [exe |-> 0, ok |-> FALSE]
ExportCase == (Export /\ pc = "done") =>
    PrintT(ToJson([cat |-> Catalogue, running |-> Running, fault |-> Fault, cmd |-> Cmd, allowed |-> Outcome, why |-> out]))
=============================================================================
