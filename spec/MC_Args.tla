------------------------------ MODULE MC_Args ------------------------------
(***************************************************************************)
(* C18.  Mode "args": argument strings are assembled piece by piece        *)
(* (junk, digits, chain part, extension, junk); every complete string is   *)
(* exported with what Resolve says.  Mode "root": every combination of     *)
(* root layout, start directory and -d / no -d.                            *)
(***************************************************************************)
EXTENDS Args, Json
CONSTANTS Mode, Export
VARIABLES stage, arg, lay, start, withD
vars == <<stage, arg, lay, start, withD>>

\* Mode "stdin": file bodies, assembled the same way.  The statement is about BYTES: the same bytes
\* as a file and on stdin give the same result, whatever blank space surrounds the lines.
BodyPieces == <<
  {"", " ", "\n", "\t\n"},                               \* in front
  {"a", "b c"},                                          \* first line
  {"", " ", "\t", "\n", " \n", "\r\n", "\nd", "\nd ", "\n##!<"},   \* its end and a second line
  {"", "\n", "\n\n", " \n", "\n ", "\r\n", "\f", "\n\t\n"}         \* the end of the file
>>
ArgPieces == <<
  {"", "x", "0", "d/", "/"},                                            \* junk in front (also a directory part)
  {"932100", "93210", "9321000", "", "93210a"},                          \* the digits
  {"", "-chain0", "-chain1", "-chain7", "-chain255", "-chain256", "-chain300", "-chain65536",
   "-chain18446744073709551616", "-chain", "-chain-1", "-chain007", "-chain1x", "-Chain1", "chain1"},
  {"", ".ra", ".raw", ".ra.ra", ".yaml", "."},                           \* extension
  {"", "x", " ", "/"}                                                   \* junk behind
>>
Pieces == IF Mode = "stdin" THEN BodyPieces ELSE ArgPieces

\* directory layouts: which directories contain a regex-assembly directory
A == <<"crs">>   B == <<"crs", "sub", "inner">>
\* a root that lives below the regex-assembly directory of another root, and one below a
\* directory whose name merely starts with regex-assembly
C == <<"crs", "regex-assembly", "fixtures", "inner">>   D == <<"regex-assembly-old", "crs">>
Layouts == { {A}, {A, B}, {B}, {}, {A, C}, {D}, {A, D} }
Starts  == { <<>>, A, B, <<"crs", "rules">>, <<"crs", "sub">>, <<"crs", "sub", "inner", "deep", "er">>,
             <<"other">>, <<"other", "x">>, C, C \o <<"rules">>, <<"crs", "regex-assembly", "include">>, D, D \o <<"util", "a">> }

\* start directories whose LAST component is a symbolic link (crs/lnk -> other/x, other/lnk2 -> crs/sub):
\* the root is searched among the ancestors of the -d argument AS WRITTEN, links are not resolved first
LinkStarts == { <<"crs", "lnk">>, <<"other", "lnk2">> }
Init == /\ stage = 0 /\ arg = ""
        /\ IF Mode = "root" THEN /\ lay \in Layouts
                                 /\ \/ start \in Starts /\ withD \in BOOLEAN
                                    \/ start \in LinkStarts /\ withD = TRUE
           ELSE lay = {} /\ start = <<>> /\ withD = FALSE
Next == /\ Mode \in {"args", "stdin"} /\ stage < Len(Pieces)
        /\ \E p \in Pieces[stage + 1] : arg' = arg \o p /\ stage' = stage + 1
        /\ UNCHANGED <<lay, start, withD>>
Spec == Init /\ [][Next]_vars

R == Resolve(arg)
Theorems == (Mode = "args" /\ stage = Len(Pieces)) =>
    (R.ok => /\ R.k <= 255 /\ Len(R.id) = 6 /\ IsDigits(R.id)
             /\ EndsWith(R.file, ".ra")
             /\ Resolve(R.file) = R                     \* the file name itself is an accepted argument for the same rule
             /\ (R.k = 0 /\ ~EndsWith(SubSeq(R.file, 1, Len(R.file) - 3), "0") => R.file = R.id \o ".ra"))

\* without -d the working directory itself must be the root (no search)
RootCase == LET r == IF withD THEN Root(lay, start)
                     ELSE IF start \in lay THEN [ok |-> TRUE, dir |-> start] ELSE [ok |-> FALSE, dir |-> <<>>]
            IN  [layout |-> lay, start |-> start, withd |-> withD, ok |-> r.ok, root |-> r.dir]

ExportCase == Export =>
    /\ (Mode = "args" /\ stage = Len(Pieces)) => PrintT(ToJson([arg |-> arg, ok |-> R.ok, file |-> R.file, id |-> R.id, k |-> R.k, ftarget |-> FormatTarget(arg)]))
    /\ (Mode = "stdin" /\ stage = Len(Pieces)) => PrintT(ToJson([body |-> arg]))
    /\ Mode = "root" => PrintT(ToJson(RootCase))
=============================================================================
