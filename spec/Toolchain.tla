----------------------------- MODULE Toolchain -----------------------------
(***************************************************************************)
(* L3: a CRS tree under a sequence of crs-toolchain commands.              *)
(*                                                                         *)
(* The tree is abstracted to what the commands read and write:             *)
(*   src[f]     which assembly program file f holds (a member of Sources,  *)
(*              or "none" when the file does not exist)                    *)
(*   canon[f]   whether f is in the canonical layout of `regex format'     *)
(*   stored[f]  the regex in the rules file on the line that f addresses:  *)
(*              "old", or G(s) for a source s, or "norule" (rule missing)  *)
(*   rulesFile  "one" | "none" | "two" (rules files matching the id prefix)*)
(*   tests      "raw" | "numbered"       (the regression test file)        *)
(*   marks      version shown by the copyright/version markers             *)
(* One action per command invocation; `--all' variants are loops over the  *)
(* files in walk order, written as folds.  Every action records            *)
(*   exit     the exit status class (0 / 1)                                *)
(*   wrote    the set of tree components it changed                        *)
(* so that the frame conditions of C15, the equivalences of C08 and the    *)
(* loud failures of C16 are properties of this one model.                  *)
(***************************************************************************)
EXTENDS Naturals, Sequences, FiniteSets, TLC

CONSTANTS Files,      \* sequence of assembly file keys in directory walk order
          Sources,    \* set of source ids
          Compiles(_), \* Compiles(s): does source s compile on its own
          Formats(_),  \* Formats(s): can source s be formatted (no unbalanced end marker, no bad flag ...)
          Lints(_),    \* Lints(s): `format --check' reports s even when it is laid out canonically (upper case in a class under flag i)
          FmtAborts(_) \* FmtAborts(s): formatting s ends the whole process (a deliberate panic), not just this file

VARIABLES src, canon, stored, rulesFile, tests, marks,   \* the tree
          exit, wrote,                                    \* what the last command reported / changed
          last,                                           \* the last command (<<>>: none yet)
          pre                                             \* the tree before the last command
vars == <<src, canon, stored, rulesFile, tests, marks, exit, wrote, last, pre>>
tree == <<src, canon, stored, rulesFile, tests, marks>>
TreeRec == [src |-> src, canon |-> canon, stored |-> stored, rulesFile |-> rulesFile, tests |-> tests, marks |-> marks]

FileSet == { Files[i] : i \in 1..Len(Files) }
G(s) == "G:" \o s                        \* the regex generated from source s (uninterpreted)

Present(f)  == src[f] # "none"
CanGen(f)   == Present(f) /\ Compiles(src[f])
\* "norule": the rule is not in the rules file; "nochain": the rule is there but its chain is
\* shorter than the offset the file name asks for (and another rule follows)
Found(f)    == rulesFile = "one" /\ stored[f] \notin {"norule", "nochain"}
CanFmt(f)   == Present(f) /\ Formats(src[f])
Log(c)      == last' = c /\ pre' = TreeRec

(***************************************************************************)
(* Inspecting commands.                                                    *)
(***************************************************************************)
Generate(f) == /\ exit' = IF CanGen(f) THEN 0 ELSE 1
               /\ wrote' = {} /\ UNCHANGED tree /\ Log(<<"generate", f>>)

CompareResult(f) == IF CanGen(f) /\ Found(f) /\ stored[f] = G(src[f]) THEN 0 ELSE 1
Compare(f, github) == /\ exit' = CompareResult(f)
                      /\ wrote' = {} /\ UNCHANGED tree /\ Log(<<"compare", f, github>>)

\* What compare prints in text mode: one verdict per rule file (the rule id and whether the stored
\* regex is the generated one), in walk order, up to the first file that cannot be processed.
RuleIdOf(f) == SubSeq(f, 1, 6)
Verdict(f)  == << RuleIdOf(f), stored[f] = G(src[f]) >>
RECURSIVE ReportFold(_)
ReportFold(i) == IF i > Len(Files) THEN <<>>
                 ELSE LET f == Files[i] IN
                      IF ~Present(f) THEN ReportFold(i + 1)
                      ELSE IF ~(CanGen(f) /\ Found(f)) THEN <<>>
                      ELSE << Verdict(f) >> \o ReportFold(i + 1)
\* (the tree is not changed by compare, so this may be evaluated before or after the step)
\* github mode: only the rules that are up to date are reported one by one; if any rule is stale (and
\* every file could be processed) one ::error:: line closes the output
Fresh(vs) == SelectSeq(vs, LAMBDA v : v[2])
Reports == IF last = <<>> THEN <<>>
           ELSE IF last[1] = "compare-all" THEN (IF last[2] THEN Fresh(ReportFold(1)) ELSE ReportFold(1))
           ELSE IF last[1] = "compare" /\ CanGen(last[2]) /\ Found(last[2])
                THEN (IF last[3] THEN Fresh(<< Verdict(last[2]) >>) ELSE << Verdict(last[2]) >>)
           ELSE <<>>
GithubError == /\ last # <<>> /\ last[1] = "compare-all" /\ last[2]
               /\ \A f \in FileSet : Present(f) => (CanGen(f) /\ Found(f))
               /\ \E f \in FileSet : Present(f) /\ stored[f] # G(src[f])

\* What format --check prints: the files that are "not properly formatted", in walk order.  A file
\* that cannot be formatted is reported as an error instead (and ends the run if it ends the process).
RECURSIVE FmtReportFold(_)
FmtReportFold(i) == IF i > Len(Files) THEN <<>>
                    ELSE LET f == Files[i] IN
                         IF ~Present(f) THEN FmtReportFold(i + 1)
                         ELSE IF ~Formats(src[f]) THEN (IF FmtAborts(src[f]) THEN <<>> ELSE FmtReportFold(i + 1))
                         ELSE IF ~canon[f] \/ Lints(src[f]) THEN <<f>> \o FmtReportFold(i + 1)
                         ELSE FmtReportFold(i + 1)
FmtReports == IF last = <<>> THEN <<>>
              ELSE IF last[1] = "format-check-all" THEN FmtReportFold(1)
              ELSE IF last[1] = "format-check" /\ CanFmt(last[2]) /\ (~canon[last[2]] \/ Lints(src[last[2]])) THEN << last[2] >>
              ELSE <<>>

\* --all: text mode reports per rule but fails only when something cannot be processed;
\* github mode fails when any rule is out of date
CompareAll(github) ==
    LET todo   == { f \in FileSet : Present(f) }
        broken == \E f \in todo : ~CanGen(f) \/ ~Found(f)
        stale  == \E f \in todo : CanGen(f) /\ Found(f) /\ stored[f] # G(src[f])
    IN  /\ exit' = IF broken \/ (github /\ stale) THEN 1 ELSE 0
        /\ wrote' = {} /\ UNCHANGED tree /\ Log(<<"compare-all", github>>)

FormatCheck(f) == /\ exit' = IF CanFmt(f) /\ canon[f] /\ ~Lints(src[f]) THEN 0 ELSE 1
                  /\ wrote' = {} /\ UNCHANGED tree /\ Log(<<"format-check", f>>)
FormatCheckAll == /\ exit' = IF \A f \in FileSet : Present(f) => (canon[f] /\ Formats(src[f]) /\ ~Lints(src[f])) THEN 0 ELSE 1
                  /\ wrote' = {} /\ UNCHANGED tree /\ Log(<<"format-check-all">>)
RenumberCheck  == /\ exit' = IF tests = "numbered" THEN 0 ELSE 1
                  /\ wrote' = {} /\ UNCHANGED tree /\ Log(<<"renumber-check">>)

\* `version' (CI=true: no look-up of newer releases) and `completion <shell>' only print
Version         == /\ exit' = 0 /\ wrote' = {} /\ UNCHANGED tree /\ Log(<<"version">>)
Completion(sh)  == /\ exit' = 0 /\ wrote' = {} /\ UNCHANGED tree /\ Log(<<"completion", sh>>)

(***************************************************************************)
(* Rewriting commands.                                                     *)
(***************************************************************************)
Update(f) ==
    /\ IF CanGen(f) /\ Found(f)
       THEN /\ stored' = [stored EXCEPT ![f] = G(src[f])]
            /\ exit' = 0
            /\ wrote' = IF stored[f] = G(src[f]) THEN {} ELSE {<<"rules", f>>}
       ELSE /\ exit' = 1 /\ wrote' = {} /\ UNCHANGED stored
    /\ UNCHANGED <<src, canon, rulesFile, tests, marks>> /\ Log(<<"update", f>>)

\* update --all: the files in walk order; the first file that cannot be processed ends the run
RECURSIVE UpdateFold(_, _)
UpdateFold(i, st) ==       \* st = [stored, exit]
    IF i > Len(Files) \/ st.exit = 1 THEN st
    ELSE LET f == Files[i] IN
         IF ~Present(f) THEN UpdateFold(i + 1, st)
         ELSE IF CanGen(f) /\ Found(f)
              THEN UpdateFold(i + 1, [st EXCEPT !.stored[f] = G(src[f])])
              ELSE [st EXCEPT !.exit = 1]
UpdateAll ==
    LET r == UpdateFold(1, [stored |-> stored, exit |-> 0]) IN
    /\ stored' = r.stored /\ exit' = r.exit
    /\ wrote' = { <<"rules", f>> : f \in { g \in FileSet : r.stored[g] # stored[g] } }
    /\ UNCHANGED <<src, canon, rulesFile, tests, marks>> /\ Log(<<"update-all">>)

Format(f) == /\ IF CanFmt(f) THEN canon' = [canon EXCEPT ![f] = TRUE] /\ exit' = 0
                ELSE exit' = 1 /\ UNCHANGED canon
             /\ wrote' = IF CanFmt(f) /\ ~canon[f] THEN {<<"ra", f>>} ELSE {}
             /\ UNCHANGED <<src, stored, rulesFile, tests, marks>> /\ Log(<<"format", f>>)
\* format --all: the files in walk order; a file that cannot be formatted is reported and the
\* run goes on (failing at the end), unless formatting it ends the process
RECURSIVE FormatFold(_, _)
FormatFold(i, st) ==       \* st = [canon, exit, stop]
    IF i > Len(Files) \/ st.stop THEN st
    ELSE LET f == Files[i] IN
         IF ~Present(f) THEN FormatFold(i + 1, st)
         ELSE IF Formats(src[f]) THEN FormatFold(i + 1, [st EXCEPT !.canon[f] = TRUE])
         ELSE FormatFold(i + 1, [st EXCEPT !.exit = 1, !.stop = FmtAborts(src[f])])
FormatAll ==
    LET r == FormatFold(1, [canon |-> canon, exit |-> 0, stop |-> FALSE]) IN
    /\ canon' = r.canon /\ exit' = r.exit
    /\ wrote' = { <<"ra", f>> : f \in { g \in FileSet : r.canon[g] # canon[g] } }
    /\ UNCHANGED <<src, stored, rulesFile, tests, marks>> /\ Log(<<"format-all">>)

Renumber == /\ tests' = "numbered" /\ exit' = 0
            /\ wrote' = IF tests = "numbered" THEN {} ELSE {<<"tests">>}
            /\ UNCHANGED <<src, canon, stored, rulesFile, marks>> /\ Log(<<"renumber">>)

\* renumber-tests NAME [--check]: NAME is resolved by a file-system glob (NAME.*) in the test directories.
\*   kind "test"    the one match is the regression test file NNNNNN.yaml
\*   kind "parked"  the one match is another file (NNNNNN.yaml.disabled, notes.md): never a target;
\*                  the exit status is not specified by any property (2 stands for "either")
\*   kind "missing" nothing matches
RenumberOne(arg, kind, check) ==
    /\ CASE kind = "test" /\ ~check -> tests' = "numbered" /\ exit' = 0
                                       /\ wrote' = IF tests = "numbered" THEN {} ELSE {<<"tests">>}
         [] kind = "test" /\ check  -> exit' = (IF tests = "numbered" THEN 0 ELSE 1) /\ wrote' = {} /\ UNCHANGED tests
         [] kind = "parked"         -> exit' = 2 /\ wrote' = {} /\ UNCHANGED tests
         [] kind = "missing"        -> exit' = 1 /\ wrote' = {} /\ UNCHANGED tests
    /\ UNCHANGED <<src, canon, stored, rulesFile, marks>> /\ Log(<<"renumber-one", arg, kind, check>>)

\* a version that is not a semantic version is rejected before anything is touched
Copyright(v, valid) ==
    /\ IF valid THEN marks' = v /\ exit' = 0 ELSE exit' = 1 /\ UNCHANGED marks
    /\ wrote' = IF valid /\ marks # v THEN {<<"marks">>} ELSE {}
    /\ UNCHANGED <<src, canon, stored, rulesFile, tests>> /\ Log(<<"copyright", v>>)

(***************************************************************************)
(* Properties.                                                             *)
(***************************************************************************)
IsInspect(c) == c[1] \in {"generate", "compare", "compare-all", "format-check", "format-check-all", "renumber-check",
                          "version", "completion"}
                \/ (c[1] = "renumber-one" /\ (c[4] \/ c[3] # "test"))

\* C15: inspecting commands never write; every command writes only its own kind of target
FrameOK == last # <<>> =>
    /\ IsInspect(last) => (wrote = {} /\ TreeRec = pre)
    /\ last[1] = "update"     => wrote \subseteq {<<"rules", last[2]>>}
    /\ last[1] = "update-all" => \A w \in wrote : w[1] = "rules"
    /\ last[1] = "format"     => wrote \subseteq {<<"ra", last[2]>>}
    /\ last[1] = "format-all" => \A w \in wrote : w[1] = "ra"
    /\ last[1] \in {"renumber", "renumber-one"} => wrote \subseteq {<<"tests">>}
    /\ last[1] = "copyright"  => wrote \subseteq {<<"marks">>}
    \* and `wrote' is exactly what differs between pre and the tree
    /\ (wrote = {}) <=> (TreeRec = pre)

\* C16: a command that fails leaves the tree as it was (update --all: what it had
\* already written before the failing file may stay)
LoudOK == (last # <<>> /\ exit = 1 /\ last[1] \notin {"update-all", "format-all"}) => TreeRec = pre

\* C12 at this level: a successful update makes compare succeed
RoundTripOK == (last # <<>> /\ last[1] = "update" /\ exit = 0) => CompareResult(last[2]) = 0

\* C08: when every present file can be processed, --all is the composition of the single
\* invocations (which commute: each touches only its own target)
AllIsSingles ==
    /\ (last = <<"update-all">> /\ exit = 0) =>
          \A f \in FileSet : pre.src[f] # "none" => stored[f] = G(src[f])
    /\ (last = <<"update-all">>) =>
          \A f \in FileSet : stored[f] \in {pre.stored[f], G(src[f])}
    /\ (last = <<"format-all">> /\ exit = 0) => \A f \in FileSet : Present(f) => canon[f]
    /\ (last = <<"format-all">>) => \A f \in FileSet : canon[f] => (pre.canon[f] \/ CanFmt(f))
=============================================================================
