SPECIFICATION Spec
CONSTANTS
  Sigma <- MCSigma
  N = 3
  LeafD <- MCLeafD
INVARIANT Agree
CHECK_DEADLOCK FALSE
