------------------------------ MODULE Renumber ------------------------------
(***************************************************************************)
(* `util renumber-tests' (util/renumber_tests.go: processYaml,             *)
(* formatEndOfFile, processFile).                                          *)
(*                                                                         *)
(* A test file is a sequence of lines: id lines (`<lead>test_id:<sp><v>'), *)
(* legacy title lines (`<lead>test_title:<sp><v>'), other lines and blank  *)
(* (white-space-only) lines, each possibly ending in a carriage return.    *)
(* Apply is the line machine of processYaml: a running index, a count of   *)
(* id lines and a count of title lines.                                    *)
(***************************************************************************)
EXTENDS Naturals, Sequences, TLC

IdLine(lead, sp, v)    == [k |-> "id", lead |-> lead, sp |-> sp, v |-> v, cr |-> FALSE]
TitleLine(lead, sp, v) == [k |-> "title", lead |-> lead, sp |-> sp, v |-> v, cr |-> FALSE]
OtherLine(txt)         == [k |-> "other", txt |-> txt, cr |-> FALSE]
BlankLine(ws)          == [k |-> "blank", txt |-> ws, cr |-> FALSE]

Raw(l) == CASE l.k = "id"    -> l.lead \o "test_id:" \o l.sp \o l.v
            [] l.k = "title" -> l.lead \o "test_title:" \o l.sp \o l.v
            [] OTHER         -> l.txt

TFile(lines, fnl) == [lines |-> lines, fnl |-> fnl]

RECURSIVE BytesOf(_, _, _)
BytesOf(ls, i, fnl) ==
    IF i > Len(ls) THEN ""
    ELSE Raw(ls[i]) \o (IF ls[i].cr THEN "\r" ELSE "") \o (IF i < Len(ls) \/ fnl THEN "\n" ELSE "")
         \o BytesOf(ls, i + 1, fnl)
Bytes(f) == BytesOf(f.lines, 1, f.fnl)

\* decimal numerals (TLC has no ToString for use in strings other than this)
Digit(n) == SubSeq("0123456789", n + 1, n + 1)
RECURSIVE Dec(_)
Dec(n) == IF n < 10 THEN Digit(n) ELSE Dec(n \div 10) \o Digit(n % 10)

(***************************************************************************)
(* The line machine.  st = [index, ids, titles].                           *)
(***************************************************************************)
Step(st, l, rule) ==
    CASE l.k = "id" ->
            LET ids == st.ids + 1
                idx == IF ids > st.index THEN st.index + 1 ELSE st.index
            IN  [st  |-> [st EXCEPT !.ids = ids, !.index = idx],
                 out |-> [l EXCEPT !.sp = " ", !.v = Dec(idx), !.cr = FALSE]]
      [] l.k = "title" ->
            LET ts  == st.titles + 1
                idx == IF ts > st.index THEN st.index + 1 ELSE st.index
            IN  [st  |-> [st EXCEPT !.titles = ts, !.index = idx],
                 out |-> [l EXCEPT !.sp = " ", !.v = rule \o "-" \o Dec(idx), !.cr = FALSE]]
      [] OTHER -> [st |-> st, out |-> [l EXCEPT !.cr = FALSE]]

RECURSIVE Run(_, _, _, _)
Run(ls, i, st, rule) ==
    IF i > Len(ls) THEN <<>>
    ELSE LET r == Step(st, ls[i], rule) IN << r.out >> \o Run(ls, i + 1, r.st, rule)

IsBlank(l) == l.k = "blank"
RECURSIVE DropTrailingBlank(_)
DropTrailingBlank(ls) ==
    IF ls # <<>> /\ IsBlank(ls[Len(ls)]) THEN DropTrailingBlank(SubSeq(ls, 1, Len(ls) - 1)) ELSE ls

\* the rewritten file: renumbered, no trailing blank lines, one final newline
\* (a file without any content stays empty)
Apply(f, rule) ==
    LET out == DropTrailingBlank(Run(f.lines, 1, [index |-> 0, ids |-> 0, titles |-> 0], rule))
    IN  TFile(out, out # <<>>)

CheckOK(f, rule) == Bytes(Apply(f, rule)) = Bytes(f)

(***************************************************************************)
(* What C13 states, as predicates.                                         *)
(***************************************************************************)
Ids(ls)    == SelectSeq(ls, LAMBDA l : l.k = "id")
Titles(ls) == SelectSeq(ls, LAMBDA l : l.k = "title")

\* every test carries the same fields: ids only, titles only, or both alternating
Even(f) == LET ks == [i \in 1..Len(SelectSeq(f.lines, LAMBDA l : l.k \in {"id", "title"})) |->
                       SelectSeq(f.lines, LAMBDA l : l.k \in {"id", "title"})[i].k]
               n  == Len(ks)
           IN  \/ \A i \in 1..n : ks[i] = "id"
               \/ \A i \in 1..n : ks[i] = "title"
               \/ (n % 2 = 0 /\ \A i \in 1..n : (i % 2 = 1 => ks[i] = ks[1]) /\ (i % 2 = 0 => ks[i] # ks[1]))

Numbered(g, rule) ==
    /\ \A i \in 1..Len(Ids(g.lines))    : Ids(g.lines)[i].v = Dec(i) /\ Ids(g.lines)[i].sp = " "
    /\ \A i \in 1..Len(Titles(g.lines)) : Titles(g.lines)[i].v = rule \o "-" \o Dec(i)

OthersKept(f, g) ==
    LET a == SelectSeq(DropTrailingBlank(f.lines), LAMBDA l : l.k \in {"other", "blank"})
        b == SelectSeq(g.lines, LAMBDA l : l.k \in {"other", "blank"})
    IN  Len(a) = Len(b) /\ \A i \in 1..Len(a) : a[i].txt = b[i].txt

=============================================================================
