------------------------------ MODULE MC_Regex ------------------------------
(***************************************************************************)
(* Cross-check of the two language definitions of module Regex (matcher    *)
(* Ends vs. set algebra D) on all small fragments over a pool of atoms.    *)
(***************************************************************************)
EXTENDS Regex, TLC
MCSigma == {"a", "b", "\n", "A"}
MCLeafD(i, fl) == {}
La == Lit("a")  Lb == Lit("b")
Atoms0 == { La, Lb, Lit("\n"), Cls({"a","b"}), NCls({"a"}), Dot, Bol, Eol }
Atoms1 == Atoms0 \cup { Q(q, x) : q \in {"star", "plus", "opt"}, x \in {La, Dot, Cls({"a", "\n"}), Bol} }
Alts   == UNION { [1..n -> Atoms1] : n \in 0..2 }
VARIABLE f
Init == f \in ({ <<a>> : a \in Alts } \cup { <<a, b>> : a \in {<<La>>, <<Bol, Lb>>, <<>>}, b \in Alts })
Next == UNCHANGED f
Spec == Init /\ [][Next]_f
Agree == \A fl \in SUBSET {"i", "s"} :
           /\ LangF(f, fl) = LangD(RFrag(f), fl)
           /\ LangF(TGroup(f), fl) = LangF(f, fl)
           /\ LangD(Q("star", Grp(f)), fl) = Lang(Q("star", Grp(f)), fl)
           /\ LangD(RCat(<<RFrag(f), RFrag(f)>>), fl) = Lang(RCat(<<RFrag(f), RFrag(f)>>), fl)
=============================================================================
