------------------------------ MODULE MC_C01 ------------------------------
(***************************************************************************)
(* C01: every well-formed assembly program compiles to a regex with the    *)
(* language of its plain reading.                                          *)
(*                                                                         *)
(* The model grows a program line by line (action AddLine) and runs the    *)
(* implementation-shaped I-machine and the plain-reading R-machine of      *)
(* AsmCore in lockstep on it.  Every complete (balanced) program is        *)
(*   - checked against the design theorem  Lang(I) = Lang(R)               *)
(*   - exported as a JSON case (program text + expected language) that     *)
(*     the Go harness replays on the real `regex generate -`.              *)
(***************************************************************************)
EXTENDS AsmCore, Json

CONSTANTS CfgSel,       \* which toolchain.yaml: "absent", "empty", "broken", "partial", "crs", "crsblock", "named", "mixed", "hostile"
          PoolSel,      \* "core": semantic pool; "hyg": text-hygiene pool (quotes, backslashes, \s, hex)
          MaxLines,     \* maximum number of source lines
          MaxDepth,     \* maximum block nesting
          Export,       \* TRUE: print one JSON case per complete program
          Theorem       \* TRUE: evaluate the design theorem on every complete program

VARIABLES prog,   \* the program so far: sequence of indices into Voc
          ist,    \* I-machine state after prog
          rst,    \* R-machine state after prog
          meta    \* bookkeeping for well-formedness and the file-global lines

vars == <<prog, ist, rst, meta>>

Names == {"x", "y"}

MCSigma == CASE PoolSel = "core" -> {"a", "b", "\n"}
             [] PoolSel = "hyg"  -> {"a", "\"", "\\", " ", "E"}   \* E stands for the control character 0x0e (see SymMap)
             [] PoolSel = "fold" -> {"a", "A", "b"}
             [] PoolSel = "cmd"  -> {"a", "x", ".", " ", "@"}
MCDev   == {}
\* toolchain.yaml contents: anti-evasion pattern, suffix pattern, no-space suffix pattern per shell
Lx == Lit("x")
PStar  == RT("x*", One(Q("star", Lx)))
POpt   == RT("x?", One(Q("opt", Lx)))
PSfx   == RT("(?:\\s|$)", One(Grp(<< <<Cls({" "})>>, <<Eol>> >>)))
PNSfx  == RT("(?:x|$)", One(Grp(<< <<Lx>>, <<Eol>> >>)))
PAlt   == RT("x|\\.", << <<Lx>>, <<Lit(".")>> >>)          \* hostile: an alternation on the top level
PAltS  == RT("$|x", << <<Eol>>, <<Lx>> >>)
MCCfg   == CASE CfgSel \in {"absent", "empty", "broken"} -> [unix |-> NoPattern, windows |-> NoPattern]
             [] CfgSel = "partial" -> [unix |-> [ev |-> PStar, sfx |-> RTEmpty, nsfx |-> RTEmpty], windows |-> NoPattern]
             [] CfgSel \in {"crs", "crsblock", "named"} -> [unix |-> [ev |-> PStar, sfx |-> PSfx, nsfx |-> PNSfx],
                                       windows |-> [ev |-> POpt, sfx |-> PNSfx, nsfx |-> PSfx]]
             \* only SOME of the patterns have a top-level alternation
             [] CfgSel = "mixed"   -> [unix |-> [ev |-> PAlt, sfx |-> PSfx, nsfx |-> PStar],
                                       windows |-> [ev |-> PStar, sfx |-> PAltS, nsfx |-> POpt]]
             [] CfgSel = "hostile" -> [unix |-> [ev |-> PAlt, sfx |-> PAltS, nsfx |-> PAlt],
                                       windows |-> [ev |-> PAltS, sfx |-> PAlt, nsfx |-> PAltS]]
YamlOf(c) == "patterns:\n  anti_evasion:\n    unix: '" \o c.unix.ev.txt \o "'\n    windows: '" \o c.windows.ev.txt
             \o "'\n  anti_evasion_suffix:\n    unix: '" \o c.unix.sfx.txt \o "'\n    windows: '" \o c.windows.sfx.txt
             \o "'\n  anti_evasion_no_space_suffix:\n    unix: '" \o c.unix.nsfx.txt \o "'\n    windows: '" \o c.windows.nsfx.txt \o "'\n"
\* the same values as YAML block scalars (the way CRS writes them): surrounding white space and the
\* final newline of the scalar are not part of the pattern
Blk(v) == "|\n      " \o v \o "  \n"
YamlBlockOf(c) == "patterns:\n  anti_evasion:\n    unix: " \o Blk(c.unix.ev.txt) \o "    windows: " \o Blk(c.windows.ev.txt)
             \o "  anti_evasion_suffix:\n    unix: " \o Blk(c.unix.sfx.txt) \o "    windows: " \o Blk(c.windows.sfx.txt)
             \o "  anti_evasion_no_space_suffix:\n    unix: " \o Blk(c.unix.nsfx.txt) \o "    windows: " \o Blk(c.windows.nsfx.txt)
\* "named": the configuration lives in a file of another name, selected with -f; a file with the default
\* name and other (hostile) patterns lies next to it and must be ignored
CfgName == IF CfgSel = "named" THEN "other.yaml" ELSE "toolchain.yaml"
CfgDecoy == IF CfgSel = "named"
            THEN YamlOf([unix |-> [ev |-> PAlt, sfx |-> PAltS, nsfx |-> PAlt], windows |-> [ev |-> PAltS, sfx |-> PAlt, nsfx |-> PAltS]])
            ELSE ""
ConfigText == CASE CfgSel = "absent" -> "" [] CfgSel = "crsblock" -> YamlBlockOf(MCCfg) [] CfgSel = "empty" -> "\n" [] CfgSel = "broken" -> "patterns: [unclosed\n  x: 'y\n"
                [] OTHER -> YamlOf(MCCfg)

(***************************************************************************)
(* Entry pools: concrete text + its parse.  (The pairing is re-checked by  *)
(* the harness: the Go regexp language of txt must equal Lang(f).)         *)
(***************************************************************************)
La == Lit("a")  Lb == Lit("b")  Lc == Lit("c")
PoolCore == <<
    RT("a",        One(La)),
    RT("b",        One(Lb)),
    RT("ab",       << <<La, Lb>> >>),
    RT("a|b",      << <<La>>, <<Lb>> >>),
    RT("ba|bb",    << <<Lb, La>>, <<Lb, Lb>> >>),
    RT("ab|bb",    << <<La, Lb>>, <<Lb, Lb>> >>),
    RT("[ab]",     One(Cls({"a", "b"}))),
    RT("[^a]",     One(NCls({"a"}))),
    RT("a+",       One(Q("plus", La))),
    RT("b*",       One(Q("star", Lb))),
    RT("a?b",      << <<Q("opt", La), Lb>> >>),
    RT("(?:a|b)b", << <<Grp(<< <<La>>, <<Lb>> >>), Lb>> >>),
    RT("(?:a|b)a|b(?:a|b)", << <<Grp(<< <<La>>, <<Lb>> >>), La>>, <<Lb, Grp(<< <<La>>, <<Lb>> >>)>> >>),
    RT(".",        One(Dot)),
    RT("^a",       << <<Bol, La>> >>),
    RT("b$",       << <<Lb, Eol>> >>),
    RT("\\n",      One(Lit("\n"))),
    RT("b ",       << <<Lb, Lit(" ")>> >>)           \* ends in a blank: the blank belongs to the entry, also on the LAST line of a file
>>

Lq == Lit("\"")  Lbs == Lit("\\")  Lsp == Lit(" ")
PoolHyg == <<
    RT("a",          One(La)),
    RT("\"",         One(Lq)),
    RT("\\\"",       One(Lq)),
    RT("\\\\",       One(Lbs)),
    RT("\\\\\"",     << <<Lbs, Lq>> >>),
    RT("\\x5c",      One(Lbs)),
    RT("\\x22a",     << <<Lq, La>> >>),
    RT("a\"a",       << <<La, Lq, La>> >>),
    RT("[\\s -/]",   One(Cls({" ", "\""}))),
    RT("\\s",        One(Cls({" "}))),
    RT("[^\\s]",     One(NCls({" "}))),
    RT("a.",         << <<La, Dot>> >>),
    RT("^\"",        << <<Bol, Lq>> >>),
    RT("\\\\$",      << <<Lbs, Eol>> >>),
    RT("[\"\\\\]",    One(Cls({"\"", "\\"}))),
    RT("\\\\|\"",     << <<Lbs>>, <<Lq>> >>),
    RT("%\\\"",       << <<Lit("%"), Lq>> >>),             \* a percent sign: the finished text is printed, not formatted
    \* inline flag groups: outside C01's quantifier (the harness does not compare languages
    \* for programs that contain them), but C02 demands that none survives in the output
    RT("(?i)^a.",    << <<Bol, La, Dot>> >>),
    RT("(?i)a.$",    << <<La, Dot, Eol>> >>)
>>

\* case folding: lower-case sources (the precondition of the format lint), upper-case subjects
PoolFold == <<
    RT("a",      One(La)),
    RT("ab",     << <<La, Lb>> >>),
    RT("[ab]",   One(Cls({"a", "b"}))),
    RT("[^a]",   One(NCls({"a"}))),
    RT("a|bb",   << <<La>>, <<Lb, Lb>> >>),
    RT("b+",     One(Q("plus", Lb))),
    RT(".",      One(Dot)),
    RT("(?:a|b)a", << <<Grp(<< <<La>>, <<Lb>> >>), La>> >>)
>>
PoolCmd == << RT("a", One(La)), RT("ax", << <<La, Lx>> >>) >>
Pool == CASE PoolSel = "core" -> PoolCore [] PoolSel = "hyg" -> PoolHyg [] PoolSel = "cmd" -> PoolCmd [] PoolSel = "fold" -> PoolFold
\* symbols of Sigma that stand for characters a TLA+ string cannot hold (hex code of the character)
SymMap == IF PoolSel = "hyg" THEN [E |-> "0e"] ELSE <<>>

\* command words for cmdline blocks
Words == IF PoolSel = "cmd"
         THEN << "a", "aa", "a.a", "a a", "aa@", "a.~", "a\\@", "a\\~", "@a", "a@a", "xa", "a@", "x~", "@" >>
         ELSE << "a", "ab", "b.a", "ba@", "a b" >>

\* prefix and suffix lines; in the hygiene pool their text needs every clean-up pass, also when the
\* file has no other line (the passes run on prefixes + body + suffixes, whatever the body is)
\* verbatim lines of a cmdline block (leading quote: the rest is pasted as it is, markers included)
VerbWords == IF PoolSel = "cmd"
             THEN << [txt |-> "'a@", vrt |-> RT("a@", << <<La, Lit("@")>> >>)],
                     [txt |-> "'x.", vrt |-> RT("x.", << <<Lx, Dot>> >>)],
                     [txt |-> "''a", vrt |-> RT("'a", << <<Lit("'"), La>> >>)] >>   \* only ONE quote is the marker
             ELSE <<>>

PfxPool == IF PoolSel = "hyg" THEN << RT("\"a", << <<Lit("\""), La>> >>), RT("\\\\", One(Lit("\\"))) >>
           ELSE << RT("a", One(La)), RT("[ab]", One(Cls({"a", "b"}))) >>
SfxPool == IF PoolSel = "hyg" THEN << RT("\\s", One(Cls({" "}))), RT("a*", One(Q("star", La))) >>
           ELSE << RT("b", One(Lb)), RT("a*", One(Q("star", La))) >>

(***************************************************************************)
(* The vocabulary of source lines.  txt is the concrete line.              *)
(***************************************************************************)
VocEntries == [i \in 1..Len(Pool) |-> [k |-> "entry", rt |-> Pool[i], txt |-> Pool[i].txt, w |-> FALSE, i |-> i]]
VocWords   == [j \in 1..Len(Words) |->
                 [k |-> "entry", rt |-> RT(Words[j], Word(Chars(Words[j]))), txt |-> Words[j], w |-> TRUE,
                  i |-> Len(Pool) + j]]
VocVerb    == [j \in 1..Len(VerbWords) |->
                 [k |-> "entry", rt |-> RT(VerbWords[j].txt, Word(Chars(VerbWords[j].txt))), vrt |-> VerbWords[j].vrt,
                  txt |-> VerbWords[j].txt, w |-> TRUE, i |-> Len(Pool) + Len(Words) + j]]
VocMarks   == <<
    [k |-> "start", p |-> "assemble", a |-> "",     txt |-> "##!> assemble"],
    [k |-> "start", p |-> "cmdline",  a |-> "unix", txt |-> "##!> cmdline unix"],
    [k |-> "start", p |-> "cmdline",  a |-> "windows", txt |-> "##!> cmdline windows"],
    [k |-> "end",    txt |-> "##!<"],
    [k |-> "concat", txt |-> "##!=>"],
    [k |-> "store", n |-> "x", txt |-> "##!=< x"],
    [k |-> "load",  n |-> "x", txt |-> "##!=> x"],
    [k |-> "store", n |-> "y", txt |-> "##!=< y"],
    [k |-> "load",  n |-> "y", txt |-> "##!=> y"]
>>
VocGlobal  ==
    [i \in 1..Len(PfxPool) |-> [k |-> "prefix", rt |-> PfxPool[i], txt |-> "##!^ " \o PfxPool[i].txt]]
 \o [i \in 1..Len(SfxPool) |-> [k |-> "suffix", rt |-> SfxPool[i], txt |-> "##!$ " \o SfxPool[i].txt]]
 \o << [k |-> "flags", fl |-> {"s"}, txt |-> "##!+ s"],
       [k |-> "flags", fl |-> {"i"}, txt |-> "##!+ i"],
       [k |-> "comment", txt |-> "##! a comment"],
       [k |-> "blank", txt |-> ""] >>

Voc == VocEntries \o VocWords \o VocVerb \o VocMarks \o VocGlobal

\* the denotation of every entry line under every flag set, computed once
FlagSets == SUBSET {"i", "s"}
LeafTable == [fl \in FlagSets |->
               [i \in 1..(Len(Pool) + Len(Words) + Len(VerbWords)) |->
                  IF "vrt" \in DOMAIN Voc[i] THEN [sh \in {"unix", "windows"} |-> D(RFrag(Voc[i].vrt.f), fl)]
                  ELSE IF Voc[i].w THEN [sh \in {"unix", "windows"} |-> D(CmdWordNode(Voc[i].txt, MCCfg[sh]), fl)]
                  ELSE [sh \in {"unix", "windows"} |-> D(RFrag(Voc[i].rt.f), fl)]]]
\* (the table is indexed by the shell of the enclosing cmdline block through RLeafSh)
MCLeafD(i, fl) == LeafTable[fl][i \div 1000][IF i % 1000 = 1 THEN "unix" ELSE "windows"]

(***************************************************************************)
(* Well-formedness of extending the program with line l (C01's            *)
(* quantifier: balanced blocks, known stored names; in a cmdline block     *)
(* every line is a command word; blocks are not empty).                    *)
(***************************************************************************)
TopKind == meta.kinds[Len(meta.kinds)]

CanAdd(l) ==
    /\ Len(prog) < MaxLines
    /\ CASE l.k = "entry"  -> (TopKind = "cmdline") = l.w
         [] l.k = "start"  -> TopKind = "assemble" /\ Len(meta.kinds) <= MaxDepth
         [] l.k = "end"    -> Len(meta.kinds) > 1 /\ meta.fill[Len(meta.fill)] > 0
         [] l.k \in {"concat", "store"} -> TopKind = "assemble"
         [] l.k = "load"   -> TopKind = "assemble" /\ l.n \in meta.stored
         [] l.k \in {"prefix", "suffix"} -> Len(meta.kinds) = 1 /\ Len(meta.pfx) + Len(meta.sfx) < 2
         [] l.k = "flags"  -> Len(meta.kinds) = 1 /\ l.fl \cap meta.flags = {}
         [] l.k \in {"comment", "blank"} -> meta.noise < 1

MetaAfter(l) ==
    CASE l.k = "start" -> [meta EXCEPT !.kinds = Append(@, l.p), !.fill = Append(@, 0)]
      [] l.k = "end"   -> [meta EXCEPT !.kinds = SubSeq(@, 1, Len(@) - 1),
                                       !.fill  = [i \in 1..(Len(@) - 1) |->
                                                    IF i = Len(@) - 1 THEN @[i] + 1 ELSE @[i]]]
      [] l.k = "entry" -> [meta EXCEPT !.fill[Len(meta.fill)] = @ + 1]
      [] l.k = "store" -> [meta EXCEPT !.stored = @ \cup {l.n}]
      [] l.k = "prefix" -> [meta EXCEPT !.pfx = Append(@, l.rt)]
      [] l.k = "suffix" -> [meta EXCEPT !.sfx = Append(@, l.rt)]
      [] l.k = "flags"  -> [meta EXCEPT !.flags = @ \cup l.fl]
      [] l.k \in {"comment", "blank"} -> [meta EXCEPT !.noise = @ + 1]
      [] OTHER -> meta

IsAsmLine(l) == l.k \in {"entry", "start", "end", "concat", "store", "load"}

Init ==
    /\ prog = <<>>
    /\ ist = IInit(Names)
    /\ rst = RInit(Names)
    /\ meta = [kinds |-> <<"assemble">>, fill |-> <<0>>, stored |-> {},
               pfx |-> <<>>, sfx |-> <<>>, flags |-> {}, noise |-> 0]

AddLine(i) ==
    LET l == Voc[i] IN
    /\ CanAdd(l)
    /\ prog' = Append(prog, i)
    /\ meta' = MetaAfter(l)
    /\ ist' = IF IsAsmLine(l) THEN IStep(ist, l) ELSE ist
    /\ rst' = IF IsAsmLine(l) THEN RStep(rst, l) ELSE rst

Next == \E i \in 1..Len(Voc) : AddLine(i)

Spec == Init /\ [][Next]_vars

(***************************************************************************)
(* Properties.                                                             *)
(***************************************************************************)
Complete == Len(meta.kinds) = 1 /\ Len(prog) >= 1

IRes == IFinish(ist, meta.pfx, meta.sfx)
RRes == RFinish(rst, meta.pfx, meta.sfx)

\* every well-formed program compiles
Compiles == ist.err = "" /\ (Complete => IRes.err = "")

\* the design theorem: the text the implementation-shaped machine builds has the
\* language of the plain reading
Refines == (Theorem /\ Complete) => LangD(RFrag(IRes.rt.f), meta.flags) = LangD(RRes, meta.flags)

\* operational invariants of the line machine
StackShape == /\ Len(ist.stack) = Len(meta.kinds)
              /\ Len(rst.stack) = Len(meta.kinds)
              /\ \A d \in 1..Len(ist.stack) : ist.stack[d].kind = meta.kinds[d]
StashKnown == \A n \in Names : (ist.stash[n] # <<>>) <=> (n \in meta.stored)

RECURSIVE Str(_)
Str(s) == IF s = <<>> THEN "" ELSE s[1] \o Str(Tail(s))

Case == [lines |-> [j \in 1..Len(prog) |-> Voc[prog[j]].txt],
         flags |-> meta.flags,
         lang  |-> { Str(s) : s \in LangD(RRes, meta.flags) },
         itxt  |-> IRes.rt.txt]

ExportCase == (Export /\ Complete) => PrintT(ToJson(Case))

\* the alphabet, the universe and every pool entry with its language: lets the
\* harness re-check the pairing of concrete text and fragment
PoolInfo == [sigma |-> Sigma, n |-> N, symmap |-> SymMap, config |-> ConfigText, cfgsel |-> CfgSel, cfgname |-> CfgName, cfgdecoy |-> CfgDecoy,
             pool |-> [i \in 1..Len(Pool) |->
                        [txt |-> Pool[i].txt, lang |-> { Str(s) : s \in LangF(Pool[i].f, {}) }]]]
ASSUME Export => PrintT(ToJson([poolinfo |-> PoolInfo]))

=============================================================================
