------------------------------ MODULE Scanner ------------------------------
(***************************************************************************)
(* Line-oriented reading (C17).  Every line-wise command of the toolchain  *)
(* reads its input through a line source with a token budget (bufio.       *)
(* Scanner: 64 KiB unless a larger buffer is set).  A run consumes the     *)
(* lines one by one.  The property: the consumer sees ALL lines, or the    *)
(* command fails loudly; it never carries on with a prefix of the input.   *)
(*                                                                         *)
(* Lines are abstracted to their length class relative to the budget.      *)
(***************************************************************************)
EXTENDS Naturals, Sequences, TLC

CONSTANTS Inputs,        \* set of inputs: sequences of length classes
          SilentStop     \* TRUE: known deviation - a line over the budget ends the loop silently

VARIABLES input, pos, seen, outcome
vars == <<input, pos, seen, outcome>>

Classes == {"short", "below", "at", "above", "double", "huge"}   \* vs the 64 KiB budget
Fits(c) == c \in {"short", "below"}

Init == input \in Inputs /\ pos = 1 /\ seen = <<>> /\ outcome = "running"

\* the next line is handed to the consumer
Deliver == /\ outcome = "running" /\ pos <= Len(input)
           /\ (Fits(input[pos]) \/ ~SilentStop)          \* intended: the budget is large enough for every line
           /\ seen' = Append(seen, pos) /\ pos' = pos + 1 /\ UNCHANGED <<input, outcome>>
\* intended alternative: the command gives up with an error
FailLoud == /\ outcome = "running" /\ pos <= Len(input) /\ ~Fits(input[pos])
            /\ outcome' = "error" /\ UNCHANGED <<input, pos, seen>>
\* deviation: Scan() returns false, Err() is not looked at, the command goes on with what it has
StopSilent == /\ SilentStop /\ outcome = "running" /\ pos <= Len(input) /\ ~Fits(input[pos])
              /\ outcome' = "ok" /\ UNCHANGED <<input, pos, seen>>
Finish == /\ outcome = "running" /\ pos > Len(input)
          /\ outcome' = "ok" /\ UNCHANGED <<input, pos, seen>>

Next == Deliver \/ FailLoud \/ StopSilent \/ Finish
Spec == Init /\ [][Next]_vars

\* C17: success means that every line was delivered, in order
NoSilentTruncation == outcome = "ok" => seen = [i \in 1..Len(input) |-> i]
=============================================================================
