------------------------------ MODULE Format ------------------------------
(***************************************************************************)
(* `regex format' (cmd/regex_format.go) on assembly files.                 *)
(*                                                                         *)
(* A file is a sequence of abstract lines plus "has a final newline".      *)
(* A line records its kind, its payload and every piece of white space     *)
(* the formatter may touch: leading blanks (lead), the spacing inside a    *)
(* directive (sp1, sp2, ..), trailing blanks (trail) and a carriage return (cr).    *)
(* Raw(l) is the concrete text of a line, Bytes(f) that of a file.         *)
(*                                                                         *)
(* Fmt(f) is the canonical layout (C09); it is again a file, so            *)
(* idempotence and the shape of the canonical form are statements TLC      *)
(* checks on every enumerated file, and Bytes(Fmt(f)) is what the real     *)
(* command must write byte for byte.                                       *)
(***************************************************************************)
EXTENDS Naturals, Sequences, TLC

(***************************************************************************)
(* Lines.                                                                  *)
(***************************************************************************)
Base(k)  == [k |-> k, lead |-> "", trail |-> "", cr |-> FALSE]
\* ##!> assemble | ##!> cmdline unix
BStart(name, arg)      == Base("bstart") @@ [name |-> name, arg |-> arg, sp1 |-> " ", sp2 |-> " "]
\* ##!< (anything may follow the marker)
BEnd(rest)             == Base("bend") @@ [rest |-> rest]
\* ##!+ i   ##!^ prefix   ##!$ suffix
Flags(val)             == Base("flags")  @@ [val |-> val, sp1 |-> " "]
Prefix(val)            == Base("prefix") @@ [val |-> val, sp1 |-> " "]
Suffix(val)            == Base("suffix") @@ [val |-> val, sp1 |-> " "]
\* ##!> define name value
Define(n, v)           == Base("define") @@ [n |-> n, v |-> v, sp1 |-> " ", sp2 |-> " ", sp3 |-> " "]
\* ##!> include f [-- pairs]        (pairs = "" when there is no list)
Include(f, pairs)      == Base("include") @@ [f |-> f, pairs |-> pairs, sp1 |-> " ", sp2 |-> " ", sp3 |-> " ", sp4 |-> " "]
\* ##!> include-except f xs [-- pairs]
InclExc(f, xs, pairs)  == Base("inclexc") @@ [f |-> f, xs |-> xs, pairs |-> pairs,
                                               sp1 |-> " ", sp2 |-> " ", sp3 |-> " ", sp4 |-> " ", sp5 |-> " "]
\* entries, comments, ##!=> and ##!=< markers: text the formatter never looks into
Other(txt)             == Base("other") @@ [txt |-> txt]
\* empty or white-space-only line (lead holds the white space)
Blank                  == Base("blank")

Marker(l) == CASE l.k = "flags" -> "##!+" [] l.k = "prefix" -> "##!^" [] l.k = "suffix" -> "##!$"

Core(l) ==
    CASE l.k = "bstart"  -> "##!>" \o l.sp1 \o l.name \o (IF l.arg = "" THEN "" ELSE l.sp2 \o l.arg)
      [] l.k = "bend"    -> "##!<" \o l.rest
      [] l.k \in {"flags", "prefix", "suffix"} -> Marker(l) \o l.sp1 \o l.val
      [] l.k = "define"  -> "##!>" \o l.sp1 \o "define" \o l.sp2 \o l.n \o l.sp3 \o l.v
      [] l.k = "include" -> "##!>" \o l.sp1 \o "include" \o l.sp2 \o l.f
                            \o (IF l.pairs = "" THEN "" ELSE l.sp3 \o "--" \o l.sp4 \o l.pairs)
      [] l.k = "inclexc" -> "##!>" \o l.sp1 \o "include-except" \o l.sp2 \o l.f \o l.sp3 \o l.xs
                            \o (IF l.pairs = "" THEN "" ELSE l.sp4 \o "--" \o l.sp5 \o l.pairs)
      [] l.k = "other"   -> l.txt
      [] l.k = "blank"   -> ""

Raw(l) == l.lead \o Core(l) \o l.trail

File(lines, fnl) == [lines |-> lines, fnl |-> fnl]

RECURSIVE BytesOf(_, _, _)
BytesOf(ls, i, fnl) ==
    IF i > Len(ls) THEN ""
    ELSE Raw(ls[i]) \o (IF ls[i].cr THEN "\r" ELSE "")
         \o (IF i < Len(ls) \/ fnl THEN "\n" ELSE "") \o BytesOf(ls, i + 1, fnl)

Bytes(f) == BytesOf(f.lines, 1, f.fnl)

(***************************************************************************)
(* The canonical layout.                                                   *)
(***************************************************************************)
RECURSIVE Spaces(_)
Spaces(n) == IF n = 0 THEN "" ELSE " " \o Spaces(n - 1)

H1 == Other("##! Please refer to the documentation at")
H2 == Other("##! https://coreruleset.org/docs/development/regex_assembly/.")
Header == << H1, H2, Blank >>

\* the canonical form of one line at nesting depth d
\* The text of a file passes two line readers (the parser's and the formatter's); each takes one
\* carriage return off the end of a line.  `cr' is the first one; a trail that ends in another one
\* loses it as well.
TrailIn(l) == IF l.cr /\ Len(l.trail) > 0 /\ SubSeq(l.trail, Len(l.trail), Len(l.trail)) = "\r"
              THEN SubSeq(l.trail, 1, Len(l.trail) - 1) ELSE l.trail
CanonLine(l, d) ==
    LET c == [l EXCEPT !.cr = FALSE, !.trail = TrailIn(l)] IN
    CASE l.k = "bstart"  -> [c EXCEPT !.lead = Spaces(2 * d), !.trail = "", !.sp1 = " ", !.sp2 = " "]
      [] l.k = "bend"    -> [c EXCEPT !.lead = Spaces(2 * (d - 1))]
      [] l.k \in {"flags", "prefix", "suffix"} -> [c EXCEPT !.lead = "", !.trail = "", !.sp1 = " "]
      [] l.k = "define"  -> [c EXCEPT !.lead = Spaces(2 * d), !.trail = "", !.sp1 = " ", !.sp2 = " ", !.sp3 = " "]
      [] l.k = "include" -> [c EXCEPT !.lead = Spaces(2 * d), !.trail = "", !.sp1 = " ", !.sp2 = " ", !.sp3 = " ", !.sp4 = " "]
      [] l.k = "inclexc" -> [c EXCEPT !.lead = Spaces(2 * d), !.trail = "", !.sp1 = " ", !.sp2 = " ",
                                      !.sp3 = IF l.xs = "" /\ l.pairs = "" THEN "" ELSE " ",
                                      !.sp4 = " ", !.sp5 = " "]
      [] l.k = "other"   -> [c EXCEPT !.lead = Spaces(2 * d)]
      [] l.k = "blank"   -> [c EXCEPT !.lead = "", !.trail = ""]

DepthAfter(l, d) == IF l.k = "bstart" THEN d + 1 ELSE IF l.k = "bend" THEN d - 1 ELSE d

SupportedFlags(val) == \A i \in 1..Len(val) : SubSeq(val, i, i) \in {"i", "s"}

\* error of a single line at depth d, "" if none
LineError(l, d) ==
    IF l.k = "bend" /\ d = 0 THEN "unbalanced"
    ELSE IF l.k = "flags" /\ ~SupportedFlags(l.val) THEN "flag"
    ELSE ""

RECURSIVE CanonAll(_, _, _)
CanonAll(ls, i, d) ==        \* [err, lines]
    IF i > Len(ls) THEN [err |-> "", lines |-> <<>>]
    ELSE IF LineError(ls[i], d) # "" THEN [err |-> LineError(ls[i], d), lines |-> <<>>]
    ELSE LET r == CanonAll(ls, i + 1, DepthAfter(ls[i], d))
         IN  [err |-> r.err, lines |-> << CanonLine(ls[i], d) >> \o r.lines]

IsEmptyLine(l) == Raw(l) = ""

RECURSIVE DropTrailingEmpty(_)
DropTrailingEmpty(ls) ==
    IF ls # <<>> /\ IsEmptyLine(ls[Len(ls)]) THEN DropTrailingEmpty(SubSeq(ls, 1, Len(ls) - 1)) ELSE ls

HasHeader(ls) == /\ Len(ls) >= 2
                 /\ Raw(ls[1]) = Raw(H1) /\ Raw(ls[2]) = Raw(H2)
                 /\ (Len(ls) = 2 \/ IsEmptyLine(ls[3]))

\* Fmt: [err, file]
Fmt(f) ==
    LET c == CanonAll(f.lines, 1, 0) IN
    IF c.err # "" THEN [err |-> c.err, file |-> f]
    ELSE LET body == DropTrailingEmpty(c.lines)
             hdr  == IF HasHeader(body) THEN body ELSE Header \o body
             all  == IF Len(hdr) = 2 THEN Append(hdr, Blank) ELSE hdr   \* header only: its blank line stays
         IN  [err |-> "", file |-> File(all, TRUE)]

(***************************************************************************)
(* --check: succeeds exactly when formatting would not change a byte and   *)
(* the upper-case lint (flag i together with an upper-case letter in a     *)
(* character class) has nothing to report.  uc marks lines of the          *)
(* vocabulary that contain such a class.                                   *)
(***************************************************************************)
HasIFlag(f) == \E i \in 1..Len(f.lines) :
                 f.lines[i].k = "flags" /\ \E j \in 1..Len(f.lines[i].val) : SubSeq(f.lines[i].val, j, j) = "i"
Lint(f)     == HasIFlag(f) /\ \E i \in 1..Len(f.lines) : "uc" \in DOMAIN f.lines[i] /\ f.lines[i].uc
CheckOK(f)  == LET r == Fmt(f) IN r.err = "" /\ Bytes(r.file) = Bytes(f) /\ ~Lint(f)

(***************************************************************************)
(* What C09 and C10 say about the canonical form, as predicates on files.  *)
(***************************************************************************)
RECURSIVE DepthsFrom(_, _, _)
DepthsFrom(ls, i, d) == IF i > Len(ls) THEN <<>> ELSE <<d>> \o DepthsFrom(ls, i + 1, DepthAfter(ls[i], d))

Shape(g) ==
    LET ls == g.lines
        ds == DepthsFrom(ls, 1, 0)
        n  == Len(ls)
    IN  /\ n >= 3 /\ Raw(ls[1]) = Raw(H1) /\ Raw(ls[2]) = Raw(H2) /\ Raw(ls[3]) = ""      \* header + blank line
        /\ g.fnl                                                                      \* one final newline ...
        /\ (n > 3 => ~IsEmptyLine(ls[n]))                                             \* ... and no empty line before it
        /\ \A i \in 1..n :
             /\ ~ls[i].cr
             /\ ls[i].k \in {"flags", "prefix", "suffix"} => ls[i].lead = "" /\ ls[i].sp1 = " " /\ ls[i].trail = ""
             /\ ls[i].k = "bstart" => ls[i].lead = Spaces(2 * ds[i]) /\ ls[i].sp1 = " "
             /\ ls[i].k = "bend"   => ls[i].lead = Spaces(2 * (ds[i] - 1))
             /\ ls[i].k \in {"define", "include", "inclexc", "other"} => ls[i].lead = Spaces(2 * ds[i])
             /\ ls[i].k = "blank"  => Raw(ls[i]) = ""

\* a line with all blanks and tabs (and the carriage return) disregarded
Squash(s) == LET RECURSIVE go(_)
                 go(i) == IF i > Len(s) THEN ""
                          ELSE LET ch == SubSeq(s, i, i) IN (IF ch \in {" ", "\t", "\r"} THEN "" ELSE ch) \o go(i + 1)
             IN  go(1)
SquashAll(ls) == [i \in 1..Len(ls) |-> Squash(Raw(ls[i]))]

\* formatting changes white space only: same lines, plus the header, minus trailing empty lines
RECURSIVE DropTrailingEmptyStr(_)
DropTrailingEmptyStr(ss) ==
    IF ss # <<>> /\ ss[Len(ss)] = "" THEN DropTrailingEmptyStr(SubSeq(ss, 1, Len(ss) - 1)) ELSE ss

MeaningKept(f, g) ==
    LET a  == DropTrailingEmptyStr(SquashAll(f.lines))
        b  == DropTrailingEmptyStr(SquashAll(g.lines))
        hd == SquashAll(<<H1, H2>>)
    IN  \/ b = a                               \* the header was there
        \/ b = hd \o a                         \* header added (a is empty)
        \/ b = hd \o <<"">> \o a               \* header and its blank line added

=============================================================================
