----------------------------- MODULE RulesFile -----------------------------
(***************************************************************************)
(* `regex update' and `regex compare' on a rules file (cmd/regex_update.go *)
(* updateRegex, cmd/regex_compare.go readCurrentRegex).                    *)
(*                                                                         *)
(* Two descriptions of the same operation:                                 *)
(*                                                                         *)
(*  - ABSTRACT: a rules file is a sequence of items (comments, blank       *)
(*    lines, other directives, rules).  A rule has an id and a chain of    *)
(*    SecRule lines, each with an operator and an operand.  Update(f,R,k,G)*)
(*    replaces the operand of link k of rule R by G, provided that link    *)
(*    exists and its operator is @rx / !@rx.  Everything else is kept.     *)
(*                                                                         *)
(*  - LINE LEVEL (implementation shaped): the file is split into lines;    *)
(*    the id action of R is searched, the target line is the line before   *)
(*    it or the k-th following SecRule line; the operand is delimited by   *)
(*    the first `"@rx ' / `"!@rx ' and the last `" \'.                     *)
(*                                                                         *)
(* TLC checks on every enumerated file, target and regex that the line     *)
(* level algorithm finds exactly the abstract target (LineRefines), that   *)
(* reading back after an update returns the regex (RoundTrip) and that a   *)
(* second update changes nothing.                                          *)
(***************************************************************************)
EXTENDS Naturals, Sequences, TLC

(***************************************************************************)
(* String helpers (TLC: strings are sequences of characters).              *)
(***************************************************************************)
At(s, i)          == SubSeq(s, i, i)
StartsAt(s, i, p) == i + Len(p) - 1 <= Len(s) /\ SubSeq(s, i, i + Len(p) - 1) = p
RECURSIVE FirstFrom(_, _, _)
FirstFrom(s, p, i) == IF i + Len(p) - 1 > Len(s) THEN 0
                      ELSE IF StartsAt(s, i, p) THEN i ELSE FirstFrom(s, p, i + 1)
First(s, p)       == FirstFrom(s, p, 1)                 \* 0 when p does not occur
RECURSIVE LastFrom(_, _, _)
LastFrom(s, p, i) == IF i < 1 THEN 0 ELSE IF StartsAt(s, i, p) THEN i ELSE LastFrom(s, p, i - 1)
Last(s, p)        == LastFrom(s, p, Len(s) - Len(p) + 1)
Digits            == {"0", "1", "2", "3", "4", "5", "6", "7", "8", "9"}
RECURSIVE Spaces(_)
Spaces(n)         == IF n = 0 THEN "" ELSE " " \o Spaces(n - 1)
RECURSIVE SkipBlanks(_, _)
SkipBlanks(s, i)  == IF i <= Len(s) /\ At(s, i) \in {" ", "\t"} THEN SkipBlanks(s, i + 1) ELSE i

(***************************************************************************)
(* Abstract rules files.                                                   *)
(***************************************************************************)
Link(op, arg)        == [op |-> op, arg |-> arg]         \* op: "@rx ", "!@rx ", "@pm ", ...
IRule(id, links)     == [k |-> "rule", id |-> id, links |-> links]
IComment(txt)        == [k |-> "line", txt |-> txt]      \* any single line that is not part of a rule
RFile(items, crlf, fnl) == [items |-> items, crlf |-> crlf, fnl |-> fnl]

\* the lines of one rule in CRS layout
RuleLines(r) ==
    LET n == Len(r.links)
        RECURSIVE go(_)
        go(i) == IF i > n THEN <<>>
                 ELSE LET ind == Spaces(4 * (i - 1))
                          l   == r.links[i]
                      IN  << ind \o "SecRule ARGS \"" \o l.op \o l.arg \o "\" \\" >>
                          \o (IF i = 1 THEN << ind \o "    \"id:" \o r.id \o ",\\", ind \o "    phase:2,\\" >>
                              ELSE << ind \o "    \"t:none,\\" >>)
                          \o << ind \o (IF i < n THEN "    chain\"" ELSE "    block\"") >>
                          \o go(i + 1)
    IN  go(1)

RECURSIVE LinesOf(_)
LinesOf(items) == IF items = <<>> THEN <<>>
                  ELSE (IF Head(items).k = "rule" THEN RuleLines(Head(items)) ELSE << Head(items).txt >>)
                       \o LinesOf(Tail(items))

RECURSIVE JoinLines(_, _, _, _)
JoinLines(ls, i, eol, fnl) ==
    IF i > Len(ls) THEN ""
    ELSE ls[i] \o (IF i < Len(ls) \/ fnl THEN eol ELSE "") \o JoinLines(ls, i + 1, eol, fnl)

Eol(f)   == IF f.crlf THEN "\r\n" ELSE "\n"
Bytes(f) == JoinLines(LinesOf(f.items), 1, Eol(f), f.fnl)

\* abstract update: error text or the new file
RuleIndex(f, R) == LET S == { i \in 1..Len(f.items) : f.items[i].k = "rule" /\ f.items[i].id = R }
                   IN  IF S = {} THEN 0 ELSE CHOOSE i \in S : \A j \in S : i <= j
IsRx(op) == op \in {"@rx ", "!@rx "}

Update(f, R, k, G) ==
    LET i == RuleIndex(f, R) IN
    IF i = 0 THEN [err |-> "rule-not-found", file |-> f]
    ELSE IF k + 1 > Len(f.items[i].links) THEN [err |-> "chain-offset-not-found", file |-> f]
    ELSE IF ~IsRx(f.items[i].links[k + 1].op) THEN [err |-> "no-rx-operator", file |-> f]
    ELSE [err |-> "", file |-> [f EXCEPT !.items[i].links[k + 1].arg = G]]

Stored(f, R, k) == f.items[RuleIndex(f, R)].links[k + 1].arg

(***************************************************************************)
(* The line-level algorithm.                                               *)
(***************************************************************************)
IsCommentLine(l) == LET i == SkipBlanks(l, 1) IN i <= Len(l) /\ At(l, i) = "#"

\* the id action `id:R' as a whole word
RECURSIVE HasIdFrom(_, _, _)
HasIdFrom(l, R, i) ==
    LET p == FirstFrom(l, "id:" \o R, i) IN
    IF p = 0 THEN FALSE
    ELSE LET after == p + 3 + Len(R)
             wordStart == p = 1 \/ At(l, p - 1) \in {" ", "\t", "\"", ",", "'"}
             wordEnd   == after > Len(l) \/ At(l, after) \notin Digits
         IN  IF wordStart /\ wordEnd THEN TRUE ELSE HasIdFrom(l, R, p + 1)
HasId(l, R)    == ~IsCommentLine(l) /\ HasIdFrom(l, R, 1)
HasAnyId(l)    == ~IsCommentLine(l) /\ \E d \in Digits : First(l, "\"id:" \o d) > 0
IsSecRuleLine(l) == LET i == SkipBlanks(l, 1) IN StartsAt(l, i, "SecRule")

\* index of the target line, 0 when the rule / chain link is not found
FindTarget(ls, R, k) ==
    LET S == { i \in 1..Len(ls) : HasId(ls[i], R) } IN
    IF S = {} THEN 0 ELSE
    LET j == CHOOSE i \in S : \A m \in S : i <= m
        RECURSIVE scan(_, _)
        \* a SecRule line whose next line carries an id action starts the NEXT rule:
        \* the chain of R has ended and the requested link does not exist
        scan(i, cnt) == IF i > Len(ls) THEN 0
                        ELSE IF IsSecRuleLine(ls[i])
                             THEN IF i + 1 <= Len(ls) /\ HasAnyId(ls[i + 1]) THEN 0
                                  ELSE IF cnt + 1 = k THEN i ELSE scan(i + 1, cnt + 1)
                             ELSE scan(i + 1, cnt)
    IN  IF k = 0 THEN j - 1 ELSE scan(j + 1, 0)

\* operand delimitation on the target line: [ok, pre, arg, post]
RxStart(l) == LET a == First(l, "\"@rx ")
                  b == First(l, "\"!@rx ")
              IN  IF a = 0 /\ b = 0 THEN 0
                  ELSE IF b = 0 \/ (a # 0 /\ a < b) THEN a + 5 ELSE b + 6      \* first character of the operand
Split(l) == LET s == RxStart(l)
                e == Last(l, "\" \\")                                          \* position of the closing quote
            IN  IF s = 0 \/ e = 0 \/ e < s THEN [ok |-> FALSE, pre |-> "", arg |-> "", post |-> ""]
                ELSE [ok |-> TRUE, pre |-> SubSeq(l, 1, s - 1), arg |-> SubSeq(l, s, e - 1), post |-> SubSeq(l, e, Len(l))]

LineUpdate(ls, R, k, G) ==
    LET t == FindTarget(ls, R, k) IN
    IF t < 1 THEN [err |-> "not-found", lines |-> ls]
    ELSE LET sp == Split(ls[t]) IN
         IF ~sp.ok THEN [err |-> "no-rx-operator", lines |-> ls]
         ELSE [err |-> "", lines |-> [ls EXCEPT ![t] = sp.pre \o G \o sp.post]]

LineRead(ls, R, k) ==
    LET t == FindTarget(ls, R, k) IN
    IF t < 1 THEN [err |-> "not-found", arg |-> ""]
    ELSE LET sp == Split(ls[t]) IN IF ~sp.ok THEN [err |-> "no-rx-operator", arg |-> ""] ELSE [err |-> "", arg |-> sp.arg]

=============================================================================
