---------------------------- MODULE Trace_Cleanup ----------------------------
(***************************************************************************)
(* Direction B for the clean-up passes: every (text before, text after)    *)
(* pair recorded by the clean.in / clean.out hooks of real compilations    *)
(* must satisfy  after = Cleanup!Pipeline(before).                         *)
(***************************************************************************)
EXTENDS Cleanup, Json
VARIABLES i, ok
Pairs == ndJsonDeserialize("clean.ndjson")
Init == i = 1 /\ ok = TRUE
Next == /\ ok /\ i <= Len(Pairs)
        /\ ok' = (Pipeline(Pairs[i].before) = Pairs[i].after) /\ i' = i + 1
Spec == Init /\ [][Next]_<<i, ok>>
Report == (~ok \/ i > Len(Pairs)) => PrintT(ToJson([accepted |-> ok, consumed |-> i - 1, total |-> Len(Pairs)]))
=============================================================================
