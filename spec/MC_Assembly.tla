----------------------------- MODULE MC_Assembly -----------------------------
(***************************************************************************)
(* All programs of up to MaxLines lines over a vocabulary that includes    *)
(* ill-formed lines (stray end, unknown processor, unknown stored name,    *)
(* store without name), run alone and after a program that leaves the      *)
(* package-level stack dirty.                                              *)
(***************************************************************************)
EXTENDS Assembly
CONSTANT MaxLines
MCSigma == {"a", "b"}
MCLeafD(i, fl) == {}
MCDev == {}
MCCfg == [unix |-> NoPattern, windows |-> NoPattern]
La == Lit("a")  Lb == Lit("b")
Voc == { LEntry(RT("a", One(La))), LEntry(RT("a|b", << <<La>>, <<Lb>> >>)),
         LStart("assemble", ""), LStart("cmdline", "unix"), LStart("cmdline", "vms"), LStart("frobnicate", ""),
         LEnd, LConcat, LStore("x"), LStore(""), LLoad("x"), LLoad("y") }
Progs == UNION { [1..n -> Voc] : n \in 0..MaxLines }
\* programs that end with an error while blocks are open: they leave the stack dirty
Dirty == { << LStart("assemble", ""), LStart("assemble", ""), LLoad("y") >>, << LStart("cmdline", "unix"), LStart("frobnicate", "") >> }
MCSchedules == { <<p>> : p \in Progs } \cup { <<d, p>> : d \in Dirty, p \in Progs }
MCNames == {"x", "y"}
=============================================================================
