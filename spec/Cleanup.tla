------------------------------ MODULE Cleanup ------------------------------
(***************************************************************************)
(* The string-level clean-up passes that Operator.complete() applies to    *)
(* the assembled expression (regex/operators/assembler.go), transcribed    *)
(* character by character:                                                 *)
(*                                                                         *)
(*   EscapeQuotes        escapeDoublequotes                                *)
(*   HexBackslashes      useHexBackslashes                                 *)
(*   SpaceClassVT        includeVerticalTabInSpaceClass                    *)
(*   StripFlags          dontUseFlagsForMetaCharacters (+ removeGroup,     *)
(*                       findGroupBodyEnd, utils.IsEscaped)                *)
(*   StripOuterGroup     removeOutermostNonCapturingGroup                  *)
(*                                                                         *)
(* Go indexes strings from 0, TLA+ from 1; positions below are 1-based.    *)
(* "CRASH" stands for an index out of range (runtime panic).               *)
(* Pipeline(t) is the composition in the order of complete(); the harness  *)
(* executes the real passes on every enumerated text (hook                 *)
(* operators.VerifCleanup) and compares byte for byte, so this module is   *)
(* bound to the code as an exact transcription.                            *)
(***************************************************************************)
EXTENDS Naturals, Sequences, TLC

At(s, i)  == IF i >= 1 /\ i <= Len(s) THEN SubSeq(s, i, i) ELSE ""
Has(s, i, p) == i >= 1 /\ i + Len(p) - 1 <= Len(s) /\ SubSeq(s, i, i + Len(p) - 1) = p
From(s, i) == SubSeq(s, i, Len(s))

\* utils.IsEscaped(input, position): odd number of backslashes directly before position
RECURSIVE BackslashesBefore(_, _)
BackslashesBefore(s, i) == IF i >= 1 /\ At(s, i) = "\\" THEN 1 + BackslashesBefore(s, i - 1) ELSE 0
IsEscaped(s, pos) == BackslashesBefore(s, pos - 1) % 2 = 1

\* strings.ReplaceAll(s, old, new): non-overlapping, left to right
RECURSIVE ReplaceAllFrom(_, _, _, _)
ReplaceAllFrom(s, i, old, new) ==
    IF i > Len(s) THEN ""
    ELSE IF Has(s, i, old) THEN new \o ReplaceAllFrom(s, i + Len(old), old, new)
    ELSE At(s, i) \o ReplaceAllFrom(s, i + 1, old, new)
ReplaceAll(s, old, new) == ReplaceAllFrom(s, 1, old, new)

\* escapeDoublequotes: a quote gets a backslash unless the PREVIOUS BYTE is a backslash
RECURSIVE EscQ(_, _)
EscQ(s, k) == IF k > Len(s) THEN ""
              ELSE (IF At(s, k) = "\"" /\ (k = 1 \/ At(s, k - 1) # "\\") THEN "\\\"" ELSE At(s, k)) \o EscQ(s, k + 1)
EscapeQuotes(s) == EscQ(s, 1)

HexBackslashes(s) == ReplaceAll(s, "\\\\", "\\x5c")

SpaceClassVT(s) == ReplaceAll(ReplaceAll(s, "\\t\\n\\f\\r -", "\\s\\x0b -"), "\\t\\n\\f\\r ", "\\s\\x0b")

(***************************************************************************)
(* Flag groups.                                                            *)
(***************************************************************************)
FlagLetters == {"-", "m", "i", "s", "U"}
RECURSIVE LettersEnd(_, _)
LettersEnd(s, i) == IF At(s, i) \in FlagLetters THEN LettersEnd(s, i + 1) ELSE i
\* a match of \(\?[-misU]+X at position i (X = ")" or ":"): returns the position AFTER the match, 0 if none
FlagMatchAt(s, i, x) == IF Has(s, i, "(?") /\ LettersEnd(s, i + 2) > i + 2 /\ At(s, LettersEnd(s, i + 2)) = x
                        THEN LettersEnd(s, i + 2) + 1 ELSE 0
\* leftmost match at or after position i: [from, to) or <<0, 0>>
RECURSIVE FirstFlagMatch(_, _, _)
FirstFlagMatch(s, i, x) == IF i > Len(s) THEN <<0, 0>>
                           ELSE IF FlagMatchAt(s, i, x) # 0 THEN <<i, FlagMatchAt(s, i, x)>>
                           ELSE FirstFlagMatch(s, i + 1, x)

\* first pass: delete every unescaped (?flags)
RECURSIVE DropFlagMarks(_, _)
DropFlagMarks(s, i) ==
    IF i > Len(s) THEN ""
    ELSE LET e == FlagMatchAt(s, i, ")") IN
         IF e # 0 /\ ~IsEscaped(s, i) THEN DropFlagMarks(s, e)
         ELSE IF e # 0 THEN SubSeq(s, i, e - 1) \o DropFlagMarks(s, e)    \* an escaped match is copied as a whole
         ELSE At(s, i) \o DropFlagMarks(s, i + 1)

\* findGroupBodyEnd(input, groupBodyStart): [end, alt] - position of the last character of the body and whether
\* the body has an alternation on its top level; end = 0 stands for running off the end of the string (CRASH)
RECURSIVE BodyEnd(_, _, _, _)
BodyEnd(s, i, depth, alt) ==
    IF depth = 0 THEN [end |-> i - 2, alt |-> alt]
    ELSE IF i > Len(s) THEN [end |-> 0, alt |-> alt]
    ELSE LET ch == At(s, i) IN
         IF ch = "(" /\ ~IsEscaped(s, i) THEN BodyEnd(s, i + 1, depth + 1, alt)
         ELSE IF ch = ")" /\ ~IsEscaped(s, i) THEN BodyEnd(s, i + 1, depth - 1, alt)
         ELSE IF ch = "|" /\ depth = 1 THEN BodyEnd(s, i + 1, depth, TRUE)
         ELSE BodyEnd(s, i + 1, depth, alt)
FindGroupBodyEnd(s, bodyStart) == BodyEnd(s, bodyStart, 1, FALSE)

\* removeGroup(input, groupStart, bodyStart, ignoreAlternations)
RemoveGroup(s, groupStart, bodyStart, ignoreAlt) ==
    LET r == FindGroupBodyEnd(s, bodyStart) IN
    IF r.end = 0 THEN "CRASH"
    ELSE LET keep == r.alt /\ ~ignoreAlt IN
         SubSeq(s, 1, groupStart - 1) \o (IF keep THEN "(?:" ELSE "")
         \o SubSeq(s, bodyStart, r.end) \o (IF keep THEN ")" ELSE "") \o From(s, r.end + 2)

\* second pass: every unescaped (?flags: group loses its flags (and its parentheses unless it has an alternation)
RECURSIVE DropFlagGroups(_, _, _)
DropFlagGroups(s, from, fuel) ==
    IF s = "CRASH" \/ fuel = 0 THEN s
    ELSE LET m == FirstFlagMatch(s, from, ":") IN
         IF m[1] = 0 THEN s
         ELSE IF IsEscaped(s, m[1]) THEN DropFlagGroups(s, m[2], fuel - 1)
         ELSE DropFlagGroups(RemoveGroup(s, m[1], m[2], FALSE), m[1], fuel - 1)

StripFlags(s) == DropFlagGroups(DropFlagMarks(s, 1), 1, 50)

\* The loop of the second pass has no bound in the code.  Its variant: every iteration either moves
\* the search position forward (escaped look-alike) or removes a flag group (the text gets shorter),
\* so it runs at most Len(s) + 1 times.  LoopRuns counts the iterations (fuel as above).
RECURSIVE LoopRuns(_, _, _)
LoopRuns(s, from, fuel) ==
    IF s = "CRASH" \/ fuel = 0 THEN 0
    ELSE LET m == FirstFlagMatch(s, from, ":") IN
         IF m[1] = 0 THEN 0
         ELSE IF IsEscaped(s, m[1]) THEN 1 + LoopRuns(s, m[2], fuel - 1)
         ELSE 1 + LoopRuns(RemoveGroup(s, m[1], m[2], FALSE), m[1], fuel - 1)
StripFlagsRuns(s) == LoopRuns(DropFlagMarks(s, 1), 1, 50)

\* removeOutermostNonCapturingGroup
StripOuterGroup(s) ==
    IF s = "CRASH" THEN s
    ELSE IF ~(Has(s, 1, "(?:") /\ Len(s) >= 4 /\ At(s, Len(s)) = ")") THEN s
    ELSE LET r == FindGroupBodyEnd(s, 4) IN
         IF r.end = 0 THEN "CRASH"
         ELSE IF r.end + 1 < Len(s) THEN s          \* the first group ends before the end of the text
         ELSE RemoveGroup(s, 1, 4, TRUE)

Pipeline(t) == IF t = "" THEN ""
               ELSE StripOuterGroup(StripFlags(SpaceClassVT(HexBackslashes(EscapeQuotes(t)))))
=============================================================================
