----------------------------- MODULE SelfUpdate -----------------------------
(***************************************************************************)
(* `crs-toolchain self-update' (cmd/self_update.go, internal/updater) as a *)
(* sequence of steps against a release source, with a fault possible at    *)
(* every request:                                                          *)
(*                                                                         *)
(*   List -> Select -> Compare -> FetchAsset -> FetchSums -> Verify        *)
(*        -> Replace            (any step may end in Fail)                 *)
(*                                                                         *)
(* A catalogue is a sequence of releases.  A release has a version, may be *)
(* a draft or a pre-release, has an asset for this platform of some        *)
(* quality (plat) and a checksum file of some quality (sums).              *)
(* exe = 0 means "the executable is byte-identical to what it was", any    *)
(* other value is the version whose asset was installed.                   *)
(*                                                                         *)
(* `crs-toolchain version' (cmd/version.go, outside CI) takes the first    *)
(* two steps of the same machine - List, Select - and then only REPORTS the *)
(* release it found; it requests no asset, never touches the executable    *)
(* and ends with status 0 whatever happened.                               *)
(***************************************************************************)
EXTENDS Naturals, Sequences, FiniteSets, TLC

CONSTANTS NoVerify,     \* TRUE: known deviation - the installing step does not verify
          Catalogues,   \* the catalogues to explore (set of sequences of releases)
          Runnings,     \* versions of the running executable (0: development build)
          Faults,       \* "none" and the requests that may fail
          Cmds          \* the commands to explore: "self-update", "version"

VARIABLES Catalogue,   \* the scenario, chosen initially: sequence of releases,
          Running,     \*   version of the running executable,
          Fault,       \*   the request that fails ("none": no fault)
          Cmd,         \*   the command
          pc, exe, sel, out
scenario == <<Catalogue, Running, Fault, Cmd>>
vars == <<Catalogue, Running, Fault, Cmd, pc, exe, sel, out>>

Rel(ver, draft, pre, plat, sums) == [ver |-> ver, draft |-> draft, pre |-> pre, plat |-> plat, sums |-> sums]
\* plat: "good" | "corrupt" (not an archive) | "badmember" (archive without the executable)
\*       | "none" (another operating system only) | "otherarch" (this OS, another architecture only)
\*       | "archfirst" (an asset for another architecture is listed before the right one)
\*       | "tgz" (a good archive under another extension the platform matching accepts: .tgz)
\* sums: "match" | "mismatch" | "otherfile" (entry for another file only) | "malformed" | "missing"

Usable(r)    == ~r.draft /\ ~r.pre /\ r.plat \notin {"none", "otherarch"}
Candidates   == { i \in 1..Len(Catalogue) : Usable(Catalogue[i]) /\ Catalogue[i].sums # "missing" }
\* releases that would be candidates if their checksum file were there
Unvalidated  == { i \in 1..Len(Catalogue) : Usable(Catalogue[i]) /\ Catalogue[i].sums = "missing" }
Highest(S)   == CHOOSE i \in S : \A j \in S : Catalogue[j].ver <= Catalogue[i].ver

Init == /\ Catalogue \in Catalogues /\ Running \in Runnings /\ Fault \in Faults /\ Cmd \in Cmds
        /\ pc = "start" /\ exe = 0 /\ sel = 0 /\ out = ""

Fail(why) == pc' = "done" /\ out' = "fail:" \o why /\ UNCHANGED <<exe, sel>>

List == /\ pc = "start"
        /\ IF Fault \in {"list-500", "list-reset", "list-badjson"} THEN Fail("list")
           ELSE pc' = "listed" /\ UNCHANGED <<exe, sel, out>>

\* The newest usable release is chosen.  When a usable release lacks its checksum file
\* the source may either skip it or give up: both are allowed, installing it is not.
Select == /\ pc = "listed"
          /\ \/ /\ Candidates # {}
                /\ sel' = Highest(Candidates) /\ pc' = "selected" /\ UNCHANGED <<exe, out>>
             \/ /\ Candidates = {} /\ Fail("no-release")
             \/ /\ Unvalidated # {} /\ Fail("validation-file-missing")

\* version: the release found is reported, whether or not it is newer
Report == /\ pc = "selected" /\ Cmd = "version"
          /\ pc' = "done" /\ out' = "latest" /\ UNCHANGED <<exe, sel>>

Compare == /\ pc = "selected" /\ Cmd = "self-update"
           /\ IF Catalogue[sel].ver <= Running
              THEN pc' = "done" /\ out' = "no-update" /\ UNCHANGED <<exe, sel>>
              ELSE pc' = "fetch" /\ UNCHANGED <<exe, sel, out>>

FetchAsset == /\ pc = "fetch"
              /\ IF Fault \in {"asset-500", "asset-reset", "asset-truncate"} THEN Fail("download")
                 ELSE pc' = "sums" /\ UNCHANGED <<exe, sel, out>>

FetchSums == /\ pc = "sums"
             /\ IF NoVerify THEN pc' = "replace" /\ UNCHANGED <<exe, sel, out>>
                ELSE IF Fault = "sums-500" THEN Fail("download-checksums")
                ELSE pc' = "verify" /\ UNCHANGED <<exe, sel, out>>

Verify == /\ pc = "verify"
          /\ IF Catalogue[sel].sums = "match" THEN pc' = "replace" /\ UNCHANGED <<exe, sel, out>>
             ELSE Fail("checksum")

Replace == /\ pc = "replace"
           /\ IF Catalogue[sel].plat \in {"good", "archfirst", "tgz"}
              THEN exe' = Catalogue[sel].ver /\ pc' = "done" /\ out' = "updated" /\ UNCHANGED sel
              ELSE Fail("unpack")

Next == (List \/ Select \/ Report \/ Compare \/ FetchAsset \/ FetchSums \/ Verify \/ Replace) /\ UNCHANGED scenario
Spec == Init /\ [][Next]_vars

(***************************************************************************)
(* C20.                                                                    *)
(***************************************************************************)
Integrity == exe # 0 =>
    /\ exe > Running
    /\ \E i \in 1..Len(Catalogue) :
         /\ Catalogue[i].ver = exe /\ Usable(Catalogue[i])
         /\ Catalogue[i].plat \in {"good", "archfirst", "tgz"} /\ Catalogue[i].sums = "match"
\* C15 for `version': it never gets as far as fetching anything, the executable stays as it is
VersionInert == Cmd = "version" => (exe = 0 /\ pc \in {"start", "listed", "selected", "done"})
Reported  == (pc = "done" /\ exe = 0) => out # "updated"
OnlyOnce  == [][exe # 0 => exe' = exe]_vars
=============================================================================
