----------------------------- MODULE AsmCore -----------------------------
(***************************************************************************)
(* The regex-assembly compiler of crs-toolchain as a LINE MACHINE.         *)
(*                                                                         *)
(* This module contains the transition functions only (pure operators).    *)
(* Assembly.tla wraps them into a state machine with variables (used for   *)
(* trace validation and for model checking the operational invariants);    *)
(* the MC_* modules fold them over enumerated programs to obtain the       *)
(* expectation that is replayed on the real binary.                        *)
(*                                                                         *)
(* Two machines consume the same line sequence:                            *)
(*                                                                         *)
(*   I-machine  (IStep/IFinish)  implementation shaped: mirrors            *)
(*              regex/operators/assembler.go and regex/processors/         *)
(*              assemble.go, cmdline.go.  It only ever builds TEXT         *)
(*              (TCat / TGroup / TJoin of module Regex), exactly where     *)
(*              the Go code concatenates strings.                          *)
(*   R-machine  (RStep/RFinish)  the plain reading of the file: blocks     *)
(*              are concatenations of segments, a segment is the           *)
(*              alternation of its entries, a nested block is one entry,   *)
(*              stored expressions are substituted.  It only ever builds   *)
(*              STRUCTURE (RAlt / RCat).                                   *)
(*                                                                         *)
(* A "regex text" (RT) is a record [txt, f]: the concrete characters and   *)
(* the fragment (parse) of those characters.                               *)
(***************************************************************************)
EXTENDS Regex, TLC

CONSTANTS Deviations,   \* names of known deviations of the code that are switched on
          Cfg           \* toolchain.yaml: [unix |-> [ev, sfx, nsfx], windows |-> ...] of RTs

(***************************************************************************)
(* Regex texts.                                                            *)
(***************************************************************************)
RT(txt, f)    == [txt |-> txt, f |-> f]
RTEmpty       == RT("", EmptyTxt)
RTCat(a, b)   == RT(a.txt \o b.txt, TCat(a.f, b.f))
RTGroup(a)    == RT("(?:" \o a.txt \o ")", TGroup(a.f))
RECURSIVE RTJoin(_)
RTJoin(as)    == IF Len(as) = 1 THEN as[1]
                 ELSE LET r == RTJoin(Tail(as))
                      IN  RT(as[1].txt \o "|" \o r.txt, TAlt(as[1].f, r.f))
RECURSIVE RTCatAll(_)
RTCatAll(as)  == IF as = <<>> THEN RTEmpty ELSE RTCat(Head(as), RTCatAll(Tail(as)))
IsEmptyRT(a)  == a.txt = ""

(***************************************************************************)
(* Lines as the assembler sees them (after the parser).                    *)
(***************************************************************************)
LEntry(rt)      == [k |-> "entry", rt |-> rt]
LStart(p, a)    == [k |-> "start", p |-> p, a |-> a]   \* ##!> p a
LEnd            == [k |-> "end"]                       \* ##!<
LConcat         == [k |-> "concat"]                    \* ##!=>
LStore(n)       == [k |-> "store", n |-> n]            \* ##!=< n
LLoad(n)        == [k |-> "load", n |-> n]             \* ##!=> n

(***************************************************************************)
(* cmdline.go: regexpStr / regexpChar / computeSuffix, on the characters   *)
(* of the line.                                                            *)
(***************************************************************************)
Chars(s) == [i \in 1..Len(s) |-> SubSeq(s, i, i)]

IsEscapedAt(cs, pos) ==   \* utils.IsEscaped: odd number of backslashes before cs[pos]
    LET RECURSIVE cnt(_)
        cnt(j) == IF j >= 1 /\ cs[j] = "\\" THEN 1 + cnt(j - 1) ELSE 0
    IN  cnt(pos - 1) % 2 = 1

CmdCharRT(c) ==
    CASE c = "." -> RT("\\.", One(Lit(".")))
      [] c = "-" -> RT("\\-", One(Lit("-")))
      [] c = " " -> RT("\\s+", One(Q("plus", Cls({" ", "\n", "\t"} \cap Sigma))))
      [] OTHER   -> RT(c, One(Lit(c)))

\* a configured pattern is inserted as ONE unit: it is grouped when pasting its text
\* as it is would let an alternation in it swallow the neighbouring characters.
\* Deviation "EvasionRaw": the pinned code pasted every pattern as it is.
Unit(p) == IF HasTopAlt(p.f) /\ "EvasionRaw" \notin Deviations THEN RTGroup(p) ELSE p

CmdWordRT(txt, pat0) ==
    LET pat  == [ev |-> Unit(pat0.ev), sfx |-> Unit(pat0.sfx), nsfx |-> Unit(pat0.nsfx)]
        cs   == Chars(txt)
        n    == Len(cs)
        \* computeSuffix
        esc  == n >= 2 /\ IsEscapedAt(cs, n)
        mark == IF n >= 2 /\ ~esc /\ cs[n] \in {"@", "~"} THEN cs[n] ELSE ""
        body == IF n < 2 THEN cs
                ELSE IF esc THEN SubSeq(cs, 1, n - 2) \o <<cs[n]>>
                ELSE IF mark # "" THEN SubSeq(cs, 1, n - 1) ELSE cs
        sfx  == IF mark = "@" THEN pat.sfx ELSE IF mark = "~" THEN pat.nsfx ELSE RTEmpty
        RECURSIVE inter(_)
        inter(i) == IF i > Len(body) THEN RTEmpty
                    ELSE IF i = 1 THEN RTCat(CmdCharRT(body[1]), inter(2))
                    ELSE RTCat(pat.ev, RTCat(CmdCharRT(body[i]), inter(i + 1)))
    IN  IF n >= 1 /\ cs[1] = "'"
        THEN [verbatim |-> TRUE]                      \* caller supplies the RT of the rest
        ELSE [verbatim |-> FALSE,
              rt |-> IF IsEmptyRT(sfx) THEN inter(1)
                     ELSE RTCat(inter(1), RTCat(pat.ev, sfx))]

\* the meaning of a command word, as structure (C04): the characters of the word, the
\* anti-evasion pattern between any two of them, and after a trailing @ / ~ the
\* anti-evasion pattern followed by the (no-space) suffix pattern, each pattern a unit
CmdWordNode(txt, pat) ==
    LET cs   == Chars(txt)
        n    == Len(cs)
        esc  == n >= 2 /\ IsEscapedAt(cs, n)
        mark == IF n >= 2 /\ ~esc /\ cs[n] \in {"@", "~"} THEN cs[n] ELSE ""
        body == IF n < 2 THEN cs
                ELSE IF esc THEN SubSeq(cs, 1, n - 2) \o <<cs[n]>>
                ELSE IF mark # "" THEN SubSeq(cs, 1, n - 1) ELSE cs
        sfx  == IF mark = "@" THEN pat.sfx ELSE IF mark = "~" THEN pat.nsfx ELSE RTEmpty
        chr(c) == IF c = " " THEN Q("plus", Cls({" ", "\n", "\t"} \cap Sigma)) ELSE Lit(c)
        RECURSIVE inter(_)
        inter(i) == IF i > Len(body) THEN <<>>
                    ELSE (IF i = 1 THEN <<>> ELSE << RFrag(pat.ev.f) >>) \o << chr(body[i]) >> \o inter(i + 1)
    IN  RCat(inter(1) \o (IF IsEmptyRT(sfx) THEN <<>> ELSE << RFrag(pat.ev.f), RFrag(sfx.f) >>))

NoPattern == [ev |-> RTEmpty, sfx |-> RTEmpty, nsfx |-> RTEmpty]
PatternFor(ct) == IF ct = "unix" THEN Cfg.unix ELSE IF ct = "windows" THEN Cfg.windows ELSE NoPattern

(***************************************************************************)
(* I-machine state.                                                        *)
(*   stack : sequence of frames, the LAST one is the current processor     *)
(*   stash : name -> <<>> (unset) or <<RT>>                                *)
(*   err   : "" or the class of the error the run ends with               *)
(* A frame is [kind, ct, lines, out]: processor kind, cmdline type, the    *)
(* pending lines (RTs) and the output buffer of an assemble processor.     *)
(***************************************************************************)
Frame(kind, ct) == [kind |-> kind, ct |-> ct, lines |-> <<>>, out |-> RTEmpty]

IInit(names) == [stack |-> << Frame("assemble", "") >>,
                 stash |-> [n \in names |-> <<>>],
                 err   |-> ""]

Top(st)        == st.stack[Len(st.stack)]
SetTop(st, fr) == [st EXCEPT !.stack = SubSeq(st.stack, 1, Len(st.stack) - 1) \o <<fr>>]
IFail(st, c)   == [st EXCEPT !.err = c]

\* assemble.go: runAssemble -- "(?:" + Join(lines) + ")" or "" when there are no lines
RunAssemble(lines) == IF lines = <<>> THEN RTEmpty ELSE RTGroup(RTJoin(lines))

\* assemble.go: append("") -- flush the pending lines into the output buffer.
\* A segment of exactly one line is pasted as it is when that cannot change the
\* meaning (no alternation at its top level), otherwise it is grouped.
\* Deviation "SingleLineRaw": the pinned code pasted every single line raw.
Flush(fr) ==
    LET seg == IF Len(fr.lines) = 1 /\ (~HasTopAlt(fr.lines[1].f) \/ "SingleLineRaw" \in Deviations)
               THEN fr.lines[1]
               ELSE RunAssemble(fr.lines)
    IN  [fr EXCEPT !.out = RTCat(fr.out, seg), !.lines = <<>>]

\* one line fed to a processor (ProcessLine)
RECURSIVE FeedLine(_, _)
FeedLine(st, line) ==
    LET fr == Top(st) IN
    IF fr.kind = "cmdline" THEN
        \* cmdline.go: every non-empty line is a command word, markers included
        IF line.k # "entry" THEN IFail(st, "unspecified:marker-in-cmdline")
        ELSE LET w == CmdWordRT(line.rt.txt, PatternFor(fr.ct))
             IN  IF w.verbatim
                 THEN IF "vrt" \in DOMAIN line
                      THEN SetTop(st, [fr EXCEPT !.lines = Append(@, line.vrt)])
                      ELSE IFail(st, "unspecified:verbatim")
                 ELSE SetTop(st, [fr EXCEPT !.lines = Append(@, w.rt)])
    ELSE
    CASE line.k = "entry"  -> SetTop(st, [fr EXCEPT !.lines = Append(@, line.rt)])
      [] line.k = "concat" -> SetTop(st, Flush(fr))
      [] line.k = "store"  ->
             IF line.n = "" THEN IFail(st, "error:store-without-name")
             ELSE LET f2 == Flush(fr)
                  IN  [SetTop(st, [f2 EXCEPT !.out = RTEmpty])
                          EXCEPT !.stash[line.n] = <<f2.out>>]
      [] line.k = "load"   ->
             LET f2 == Flush(fr)
             IN  IF line.n \notin DOMAIN st.stash \/ st.stash[line.n] = <<>>
                 THEN IFail(SetTop(st, f2), "error:unknown-stored-name")
                 ELSE SetTop(st, [f2 EXCEPT !.out = RTCat(f2.out, st.stash[line.n][1])])

\* Complete(): the lines a processor hands to its parent (0 or 1 line)
CompleteFrame(fr) ==
    IF fr.kind = "cmdline"
    THEN IF fr.lines = <<>> THEN << RTEmpty >> ELSE << RTJoin(fr.lines) >>
    ELSE LET rx == RunAssemble(fr.lines)
         IN  IF IsEmptyRT(rx) /\ IsEmptyRT(fr.out) THEN <<>>
             ELSE IF ~IsEmptyRT(fr.out) /\ ~IsEmptyRT(rx)
                  THEN << RTCat(RTGroup(fr.out), RTGroup(rx)) >>
             ELSE IF ~IsEmptyRT(fr.out) THEN << RTGroup(fr.out) >>
             ELSE << RTGroup(rx) >>

\* assembler.go: assemble(), one iteration of the scanner loop
IStep(st, line) ==
    IF st.err # "" THEN st ELSE
    CASE line.k = "start" ->
            IF line.p = "assemble" THEN [st EXCEPT !.stack = Append(@, Frame("assemble", ""))]
            ELSE IF line.p = "cmdline"
                 THEN IF line.a \in {"unix", "windows"}
                      THEN [st EXCEPT !.stack = Append(@, Frame("cmdline", line.a))]
                      ELSE IFail(st, "error:bad-cmdline-type")
                 ELSE IFail(st, "error:unknown-processor")
      [] line.k = "end" ->
            LET res == CompleteFrame(Top(st))
                st2 == [st EXCEPT !.stack = SubSeq(@, 1, Len(@) - 1)]
            IN  IF Len(st2.stack) = 0 THEN IFail(st2, "error:unbalanced-end")
                ELSE IF res = <<>> THEN st2
                ELSE IF IsEmptyRT(res[1]) THEN IFail(st2, "unspecified:empty-cmdline-block")
                ELSE FeedLine(st2, LEntry(res[1]))
      [] OTHER -> FeedLine(st, line)

\* assemble() after the loop, then complete(): final pass, prefixes, suffixes.
\* The clean-up passes (simplification, hex escapes, quote escaping, ...) are
\* language preserving by design and are therefore identities here; that the
\* real passes are language preserving is what the replay decides.
IFinish(st, prefixes, suffixes) ==
    IF st.err # "" THEN [err |-> st.err, rt |-> RTEmpty] ELSE
    LET res   == CompleteFrame(Top(st))
        depth == Len(st.stack)
        \* runFinalPass: a fresh assemble processor fed with the 0 or 1 result lines
        body  == IF res = <<>> THEN RTEmpty ELSE RTGroup(RTGroup(res[1]))
        body2 == IF prefixes # <<>> /\ suffixes # <<>> /\ ~IsEmptyRT(body) THEN RTGroup(body) ELSE body
        all   == RTCat(RTCatAll(prefixes), RTCat(body2, RTCatAll(suffixes)))
    IN  IF depth > 1 THEN [err |-> "error:unclosed-block", rt |-> RTEmpty]
        ELSE IF res # <<>> /\ IsEmptyRT(res[1]) THEN [err |-> "unspecified:empty-cmdline-block", rt |-> RTEmpty]
        ELSE [err |-> "", rt |-> all]

(***************************************************************************)
(* R-machine: the plain reading.                                           *)
(*   a frame is [kind, ct, segs, cur]: the finished segments (nodes, to be *)
(*   concatenated) and the entries of the segment being read (nodes, to    *)
(*   be alternated).                                                       *)
(***************************************************************************)
RFrame(kind, ct) == [kind |-> kind, ct |-> ct, segs |-> <<>>, cur |-> <<>>]

RInit(names) == [stack |-> << RFrame("assemble", "") >>,
                 stash |-> [n \in names |-> <<>>]]

RClose(fr) == IF fr.cur = <<>> THEN fr
              ELSE [fr EXCEPT !.segs = Append(@, RAlt(fr.cur)), !.cur = <<>>]

RValue(fr) == LET c == RClose(fr) IN c.segs      \* sequence of nodes, concatenated

RStep(st, line) ==
    LET fr  == st.stack[Len(st.stack)]
        set(f) == [st EXCEPT !.stack = SubSeq(@, 1, Len(@) - 1) \o <<f>>]
    IN
    CASE line.k = "start" -> [st EXCEPT !.stack = Append(@, RFrame(line.p, line.a))]
      [] line.k = "end" ->
            LET v   == RValue(fr)
                st2 == [st EXCEPT !.stack = SubSeq(@, 1, Len(@) - 1)]
                par == st2.stack[Len(st2.stack)]
            IN  IF v = <<>> THEN st2
                ELSE [st2 EXCEPT !.stack = SubSeq(@, 1, Len(@) - 1)
                                            \o << [par EXCEPT !.cur = Append(@, RCat(v))] >>]
      [] line.k = "entry" ->
            IF fr.kind = "cmdline"
            THEN LET w == CmdWordRT(line.rt.txt, PatternFor(fr.ct))
                 IN  set([fr EXCEPT !.cur = Append(@, IF "i" \in DOMAIN line
                                                      THEN RLeaf(line.i * 1000 + (IF fr.ct = "unix" THEN 1 ELSE 2))
                                                      ELSE IF w.verbatim THEN RFrag(line.vrt.f)
                                                      ELSE CmdWordNode(line.rt.txt, PatternFor(fr.ct)))])
            ELSE set([fr EXCEPT !.cur = Append(@, IF "i" \in DOMAIN line THEN RLeaf(line.i * 1000 + 1) ELSE RFrag(line.rt.f))])
      [] line.k = "concat" -> set(RClose(fr))
      [] line.k = "store"  -> [set([RClose(fr) EXCEPT !.segs = <<>>])
                                  EXCEPT !.stash[line.n] = << RCat(RValue(fr)) >>]
      [] line.k = "load"   -> LET c == RClose(fr)
                              IN  set([c EXCEPT !.segs = Append(@, st.stash[line.n][1])])

RFinish(st, prefixes, suffixes) ==
    LET v == RValue(st.stack[1])
    IN  IF v = <<>> THEN RCat([i \in 1..Len(prefixes) |-> RFrag(prefixes[i].f)]
                              \o [i \in 1..Len(suffixes) |-> RFrag(suffixes[i].f)])
        ELSE RCat([i \in 1..Len(prefixes) |-> RFrag(prefixes[i].f)]
                  \o << RCat(v) >>
                  \o [i \in 1..Len(suffixes) |-> RFrag(suffixes[i].f)])

(***************************************************************************)
(* Folding whole line sequences.                                           *)
(***************************************************************************)
RECURSIVE IRun(_, _), RRun(_, _)
IRun(st, ls) == IF ls = <<>> THEN st ELSE IRun(IStep(st, Head(ls)), Tail(ls))
RRun(st, ls) == IF ls = <<>> THEN st ELSE RRun(RStep(st, Head(ls)), Tail(ls))

=============================================================================
