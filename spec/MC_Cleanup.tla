----------------------------- MODULE MC_Cleanup -----------------------------
(***************************************************************************)
(* All texts up to MaxLen characters over the characters the clean-up      *)
(* passes look at (Mode "chars"), and all texts of up to MaxLen whole       *)
(* constructs (Mode "tokens": a look-alike FOLLOWED by a real flag group    *)
(* needs 11 characters).  Checked on every text:                                 *)
(*   NoCrash    a text in which every unescaped parenthesis is matched and *)
(*              no backslash dangles (what the regexp printer produces)    *)
(*              never makes the passes run out of bounds                   *)
(*   Hygiene    for such a text the result satisfies OutputText!Scan,      *)
(*              except for the known deviation (a quote after a literal    *)
(*              backslash, which escapeDoublequotes takes for escaped)     *)
(*   Terminates the loop without a bound in the code (second flag pass) ends  *)
(*              after at most Len + 1 rounds, on every text                *)
(* Every text is exported with Pipeline(text) for the byte-for-byte        *)
(* comparison with the real passes.                                        *)
(***************************************************************************)
EXTENDS Cleanup, Json
CONSTANTS MaxLen, Export,
          Mode      \* "chars": all texts of <= MaxLen characters; "tokens": all texts of <= MaxLen tokens
VARIABLES t, n
Alphabet == {"a", "\"", "\\", "(", ")", "?", "i", ":", "|", "-"}
\* whole constructs the passes look for: real flag groups, flag marks, escaped look-alikes, groups
\* with and without alternation, quotes and backslashes around them
Tokens == {"a", "\"", "\\\\", "\\(?i:", "\\(?s:b", "(?i:a)", "(?s:.)", "(?-s:b|c)", "(?i)", "(?:", ")", "|", "\\(?i)", "[\\t\\n\\f\\r ]"}
Pieces == IF Mode = "tokens" THEN Tokens ELSE Alphabet
Init == t = "" /\ n = 0
Next == n < MaxLen /\ \E p \in Pieces : t' = t \o p /\ n' = n + 1
Spec == Init /\ [][Next]_<<t, n>>

RECURSIVE Balanced(_, _, _)
Balanced(s, i, depth) ==
    IF i > Len(s) THEN depth = 0 /\ ~IsEscaped(s, Len(s) + 1)
    ELSE IF At(s, i) = "(" /\ ~IsEscaped(s, i) THEN Balanced(s, i + 1, depth + 1)
    ELSE IF At(s, i) = ")" /\ ~IsEscaped(s, i) THEN depth > 0 /\ Balanced(s, i + 1, depth - 1)
    ELSE Balanced(s, i + 1, depth)
WellFormed(s) == Balanced(s, 1, 0)

NoCrash == WellFormed(t) => Pipeline(t) # "CRASH"

\* C19 at design level: the unbounded loop of the flag pass ends after at most Len + 1 rounds, on EVERY text
Terminates == LET u == SpaceClassVT(HexBackslashes(EscapeQuotes(t))) IN StripFlagsRuns(u) <= Len(u) + 1

OT == INSTANCE OutputText
\* the known deviation: a quote preceded by an even, non-zero number of backslashes
DevQuote(s) == \E i \in 1..Len(s) : At(s, i) = "\"" /\ BackslashesBefore(s, i - 1) >= 2 /\ BackslashesBefore(s, i - 1) % 2 = 0
Hygiene == (WellFormed(t) /\ t # "") =>
              \/ OT!Scan(Pipeline(t)) = "ok"
              \/ (OT!Scan(Pipeline(t)) = "quote" /\ DevQuote(t))
ExportCase == Export => PrintT(ToJson([t |-> t, out |-> Pipeline(t), wf |-> WellFormed(t)]))
=============================================================================
