----------------------------- MODULE MC_Format -----------------------------
(***************************************************************************)
(* C09 / C10: all assembly files of up to MaxLines lines over a vocabulary *)
(* of line shapes (every directive kind with spacing variants, entries,    *)
(* comments, blank and white-space-only lines, tabs, CRLF, header lines).  *)
(* The state is the file written so far; every state is a file.            *)
(***************************************************************************)
EXTENDS Format, Json

CONSTANTS MaxLines, Export, Theorem

VARIABLE lines     \* sequence of indices into Voc
vars == <<lines>>

L(l, lead, trail) == [l EXCEPT !.lead = lead, !.trail = trail]
CR(l) == [l EXCEPT !.cr = TRUE]

Voc == <<
  Other("foo"), L(Other("b.r"), "  ", "  "), L(Other("(?:x|y)+"), "\t", ""), CR(Other("foo")),
  CR(L(Other("dbl"), "", "\r")),           \* a line that went through CR LF conversion twice
  Other("[A-Z]x") @@ [uc |-> TRUE],
  L(Other("\fq"), " ", ""),        \* the entry itself starts with white space that is not indentation (form feed)
  Other("##! comment"), L(Other("##! ##!> include looks-like"), " ", ""), Other("##!=>"), L(Other("##!=< x"), "    ", " "), Other("##!=> x"),
  BStart("assemble", ""), [L(BStart("assemble", ""), "   ", " ") EXCEPT !.sp1 = ""],
  [BStart("cmdline", "unix") EXCEPT !.sp1 = "  ", !.sp2 = "   "], CR(BStart("cmdline", "windows")),
  L(BStart("assemble", "foo  bar"), "", "  "), Other("##!> cmdlineunix"), Other("entry ##!> include f"),
  BEnd(""), L(BEnd(" end of block"), "\t\t", ""),
  [Flags("i") EXCEPT !.sp1 = ""], L(Flags("s"), "  ", "  "), Flags("x"),
  [Prefix("a b") EXCEPT !.sp1 = "  "], L(Suffix("c|d"), "  ", " \t"), Prefix("(?:%3c|<)%s%d"), [Suffix("100%") EXCEPT !.sp1 = ""],
  Flags("U"), Flags("i s"),
  Define("n", "v[0-9]+"), [L(Define("long-name_1", "{{n}}x"), "  ", "  ") EXCEPT !.sp1 = "", !.sp2 = "  ", !.sp3 = "\t"],
  Include("f", ""), [L(Include("f.ra", "a b"), " ", " ") EXCEPT !.sp1 = "", !.sp2 = "  ", !.sp3 = "  ", !.sp4 = ""],
  Include("g", "a  b   c \"\""),
  InclExc("f", "x1  x2", ""), [L(InclExc("f", "x", "a b"), "\t", " ") EXCEPT !.sp2 = "  ", !.sp3 = "  ", !.sp4 = ""],
  Blank, L(Blank, "  ", ""), L(Blank, "\t", ""), CR(Blank),
  H1, H2
>>

File1(fnl) == File([i \in 1..Len(lines) |-> Voc[lines[i]]], fnl)

\* files start empty or with the standard header already in place (so that
\* formatting can also SHRINK a file that carries the header)
IxOf(l) == CHOOSE i \in 1..Len(Voc) : Voc[i] = l
HeaderPrefix == << IxOf(H1), IxOf(H2), IxOf(Blank) >>
Headered == Len(lines) >= 3 /\ SubSeq(lines, 1, 3) = HeaderPrefix
Init == lines \in { <<>>, HeaderPrefix }
Next == /\ Len(lines) < (IF Headered THEN MaxLines + 2 ELSE MaxLines)
        /\ \E i \in 1..Len(Voc) : lines' = Append(lines, i)
Spec == Init /\ [][Next]_vars

\* the same file with CRLF line ends throughout
AllCR(f) == [f EXCEPT !.lines = [i \in 1..Len(f.lines) |-> [f.lines[i] EXCEPT !.cr = TRUE]]]

(***************************************************************************)
(* Design theorems about Fmt, for every enumerated file.                   *)
(***************************************************************************)
Thm(f) == LET r == Fmt(f) IN
          r.err = "" =>
            /\ Fmt(r.file) = [err |-> "", file |-> r.file]          \* idempotent
            /\ Shape(r.file)                                        \* the canonical layout of C09
            /\ MeaningKept(f, r.file)                               \* white space only (C10)
            /\ (CheckOK(r.file) \/ Lint(r.file))                    \* --check accepts what format wrote
            /\ (CheckOK(f) => Bytes(r.file) = Bytes(f))

Theorems == Theorem => (Thm(File1(TRUE)) /\ Thm(File1(FALSE)) /\ Thm(AllCR(File1(TRUE))))

Case(f) == LET r == Fmt(f) IN
           [raw   |-> Bytes(f),
            err   |-> r.err,
            out   |-> IF r.err = "" THEN Bytes(r.file) ELSE "",
            check |-> CheckOK(f),
            lint  |-> Lint(f),
            kinds |-> { f.lines[i].k : i \in 1..Len(f.lines) }]

ExportCase == Export =>
    /\ PrintT(ToJson(Case(File1(TRUE))))
    /\ (Len(lines) > 0 => /\ PrintT(ToJson(Case(File1(FALSE))))
                          /\ PrintT(ToJson(Case(AllCR(File1(TRUE))))))
=============================================================================
