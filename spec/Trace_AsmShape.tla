--------------------------- MODULE Trace_AsmShape ---------------------------
(***************************************************************************)
(* Direction B: executions recorded from the real code (file trace.ndjson, *)
(* one event per line, processes separated by proc.reset events) are       *)
(* checked against AsmShape: one TLC step per recorded event.  The run     *)
(* stops at the first event the specification does not allow and reports   *)
(* its position; a trace is accepted when every event was consumed.        *)
(***************************************************************************)
EXTENDS AsmShape, Json
VARIABLES l, s, ok
vars == <<l, s, ok>>

TraceLog == ndJsonDeserialize("trace.ndjson")

Init == l = 1 /\ s = SInit /\ ok = TRUE
Next == /\ ok /\ l <= Len(TraceLog)
        /\ LET r == SStep(s, TraceLog[l]) IN s' = r.s /\ ok' = r.ok
        /\ l' = l + 1
Spec == Init /\ [][Next]_vars

\* printed once, at the end of the trace or at the first rejected event
Report == (~ok \/ l > Len(TraceLog)) =>
    PrintT(ToJson([accepted |-> ok, consumed |-> l - 1, total |-> Len(TraceLog), runs |-> s.runs, dirty_enter |-> s.dirtyEnter,
                   state |-> [phase |-> s.phase, depth |-> Len(s.stack), pend |-> s.pend]]))
=============================================================================
