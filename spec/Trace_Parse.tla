----------------------------- MODULE Trace_Parse -----------------------------
(***************************************************************************)
(* Direction B for the parser and the formatter.                           *)
(*                                                                         *)
(* kinds.ndjson   one record per DISTINCT (line, kind) pair observed in    *)
(*                `parse.kind' events of real runs: the kind the parser    *)
(*                gave the line must be the one Classify gives it, and at  *)
(*                most one directive pattern may claim the line.           *)
(* fmt.ndjson     the `fmt.file' / `fmt.line' events of real format runs:  *)
(*                the indentation depth recorded before and after every    *)
(*                line must follow the block structure (Format!DepthAfter),*)
(*                start at 0 in every file and never become negative.      *)
(***************************************************************************)
EXTENDS Classify, Json
VARIABLES i, j, depth, ok
vars == <<i, j, depth, ok>>

Kinds  == ndJsonDeserialize("kinds.ndjson")
FmtLog == ndJsonDeserialize("fmt.ndjson")

KindName(c) == CASE c = 7 -> "regular" [] c = 8 -> "empty" [] c = 9 -> "include" [] c = 10 -> "include-except"
                 [] c = 11 -> "definition" [] c = 12 -> "comment" [] c = 13 -> "flags" [] c = 14 -> "prefix" [] c = 15 -> "suffix"
                 [] OTHER -> "?"
CanonOrder == <<"include", "include-except", "definition", "comment", "flags", "prefix", "suffix">>

KindOK(r) == /\ Cardinality(Claimants(r.line)) <= 1
             /\ Kind(r.line, CanonOrder) = KindName(r.kind)

\* the formatter's view of a (formatted) line
IsBlockStart(l) == LET s == TrimLeft(l) IN
                   /\ Has(s, 1, "##!>")
                   /\ LET k == SkipWS(s, 5) IN
                      \/ (Has(s, k, "assemble") /\ (k + 8 > Len(s) \/ WS(At(s, k + 8))))
                      \/ (Has(s, k, "cmdline")  /\ (k + 7 > Len(s) \/ WS(At(s, k + 7))))
IsBlockEnd(l)   == Has(TrimLeft(l), 1, "##!<")

FmtOK(e, d) ==
    IF e.ev = "fmt.file" THEN TRUE
    ELSE /\ e.before = d
         /\ IF e.failed THEN d = 0 /\ e.after = 0
            ELSE IF IsBlockStart(e.line) THEN e.after = d + 1
            ELSE IF IsBlockEnd(e.line) THEN d > 0 /\ e.after = d - 1
            ELSE e.after = d

Init == i = 1 /\ j = 1 /\ depth = 0 /\ ok = TRUE
StepKind == /\ ok /\ i <= Len(Kinds)
            /\ ok' = KindOK(Kinds[i]) /\ i' = i + 1 /\ UNCHANGED <<j, depth>>
StepFmt  == /\ ok /\ i > Len(Kinds) /\ j <= Len(FmtLog)
            /\ LET e == FmtLog[j] IN
               /\ ok' = FmtOK(e, depth)
               /\ depth' = IF e.ev = "fmt.file" THEN 0 ELSE e.after
            /\ j' = j + 1 /\ UNCHANGED i
Next == StepKind \/ StepFmt
Spec == Init /\ [][Next]_vars

Report == (~ok \/ (i > Len(Kinds) /\ j > Len(FmtLog))) =>
    PrintT(ToJson([accepted |-> ok, kinds |-> i - 1, fmt |-> j - 1, total_kinds |-> Len(Kinds), total_fmt |-> Len(FmtLog)]))
=============================================================================
