------------------------------ MODULE AsmShape ------------------------------
(***************************************************************************)
(* The line machine of the assembler at the level of detail the trace      *)
(* hooks record (Direction B): per processor frame its kind, the number of *)
(* pending lines and whether its output buffer is empty - the CONTENT of   *)
(* entries is not part of an event, so traces of arbitrary programs can be *)
(* validated.                                                              *)
(*                                                                         *)
(* SStep(s, e) consumes one recorded event e in shape state s and says     *)
(* whether the event is one the specification allows there.  The events    *)
(* (emitted by the hooks in regex/operators/assembler.go and               *)
(* regex/processors/assemble.go, cmdline.go):                              *)
(*   run.enter  stack      Operator.Run entered (stack: depth BEFORE reset)*)
(*   asm.start  name arg   processor block opened                          *)
(*   asm.end    produced   block completed, `produced' lines go to parent  *)
(*   asm.entry  n          a line was added to an assemble processor       *)
(*   cmd.word   empty      a line was handed to a cmdline processor        *)
(*   asm.load   name       ##!=> [name]    asm.store name   ##!=< name     *)
(*   asm.flush  lines raw  pending lines moved to the output buffer        *)
(*   asm.state  depth kind n out   after each input line: the top frame    *)
(*   asm.finish depth      input exhausted                                 *)
(*   run.exit   ok depth   Operator.Run returns                            *)
(***************************************************************************)
EXTENDS Naturals, Sequences, FiniteSets, TLC

SFrame(kind) == [kind |-> kind, n |-> 0, out |-> TRUE]

\* phase: "idle" outside Run; "lines" in the scanner loop; "final" after asm.finish;
\* pend: what must come next ("" = nothing in particular)
SInit == [phase |-> "idle", stack |-> <<>>, stored |-> {}, pend |-> "", want |-> 0, outKnown |-> TRUE,
          runs |-> 0, dirtyEnter |-> 0]

STop(s)        == s.stack[Len(s.stack)]
SSetTop(s, fr) == [s EXCEPT !.stack = SubSeq(s.stack, 1, Len(s.stack) - 1) \o <<fr>>]
Good(s) == [s |-> s, ok |-> TRUE]
Bad(s)  == [s |-> s, ok |-> FALSE]

Produced(fr) == IF fr.kind = "cmdline" THEN 1 ELSE IF fr.n = 0 /\ fr.out THEN 0 ELSE 1

SStep(s, e) ==
    CASE e.ev = "proc.reset" -> Good([SInit EXCEPT !.runs = s.runs, !.dirtyEnter = s.dirtyEnter])   \* the next events come from another process
      [] e.ev = "run.enter" ->
            \* whatever the package-level stack held before, Run starts from a single root frame
            Good([s EXCEPT !.phase = "lines", !.stack = << SFrame("assemble") >>, !.pend = "", !.want = 0,
                           !.outKnown = TRUE, !.runs = @ + 1,
                           !.dirtyEnter = IF e.stack > 0 THEN @ + 1 ELSE @])
      [] e.ev = "run.exit" ->
            IF s.phase = "idle" THEN Bad(s)
            ELSE IF e.ok /\ ~(s.phase = "final" /\ s.want = 0 /\ e.depth = 0) THEN Bad(s)
            ELSE Good([s EXCEPT !.phase = "idle", !.stack = <<>>, !.pend = ""])
      [] s.phase = "idle" -> Bad(s)
      [] e.ev = "asm.entry" ->
            IF s.phase = "final"
            THEN IF s.want > 0 /\ e.n = 1 THEN Good([s EXCEPT !.want = @ - 1]) ELSE Bad(s)
            ELSE IF STop(s).kind # "assemble" \/ s.pend \notin {"", "consume"} \/ e.n # STop(s).n + 1 THEN Bad(s)
            ELSE Good([SSetTop(s, [STop(s) EXCEPT !.n = e.n]) EXCEPT !.pend = ""])
      [] e.ev = "cmd.word" ->
            IF s.phase # "lines" \/ STop(s).kind # "cmdline" \/ s.pend \notin {"", "consume"} THEN Bad(s)
            ELSE Good([SSetTop(s, [STop(s) EXCEPT !.n = IF e.empty THEN @ ELSE @ + 1]) EXCEPT !.pend = ""])
      [] e.ev = "asm.load" ->
            IF s.phase # "lines" \/ STop(s).kind # "assemble" \/ s.pend # "" THEN Bad(s)
            ELSE Good([s EXCEPT !.pend = "flush", !.outKnown = (e.name = "")])
      [] e.ev = "asm.store" ->
            IF s.phase # "lines" \/ STop(s).kind # "assemble" \/ s.pend # "" THEN Bad(s)
            ELSE IF e.name = "" THEN Good([s EXCEPT !.pend = "error"])
            ELSE Good([s EXCEPT !.pend = "flush-store", !.stored = @ \cup {e.name}])
      [] e.ev = "asm.flush" ->
            \* a segment of one line may be pasted raw (then an empty flush follows); otherwise all pending lines go
            IF s.pend \notin {"flush", "flush-store", "flush2", "flush2-store"} \/ e.lines # STop(s).n \/ (e.raw /\ e.lines # 1) THEN Bad(s)
            ELSE LET fr == [STop(s) EXCEPT !.n = 0, !.out = IF e.lines > 0 THEN FALSE ELSE @]
                     store == s.pend \in {"flush-store", "flush2-store"}
                     nxt == IF e.raw THEN (IF store THEN "flush2-store" ELSE "flush2") ELSE ""
                 IN  Good([SSetTop(s, IF nxt = "" /\ store THEN [fr EXCEPT !.out = TRUE] ELSE fr) EXCEPT !.pend = nxt])
      [] e.ev = "asm.state" ->
            IF s.phase # "lines" \/ s.pend # "" THEN Bad(s)
            ELSE IF e.depth # Len(s.stack) \/ e.kind # STop(s).kind \/ e.n # STop(s).n THEN Bad(s)
            ELSE IF s.outKnown /\ e.out # STop(s).out THEN Bad(s)
            ELSE Good([SSetTop(s, [STop(s) EXCEPT !.out = e.out]) EXCEPT !.outKnown = TRUE])
      [] e.ev = "asm.start" ->
            IF s.phase # "lines" \/ s.pend # "" \/ e.name \notin {"assemble", "cmdline"} THEN Bad(s)
            ELSE IF e.name = "cmdline" /\ e.arg \notin {"unix", "windows"} THEN Bad(s)
            ELSE Good([s EXCEPT !.stack = Append(@, SFrame(e.name))])
      [] e.ev = "asm.end" ->
            IF s.phase # "lines" \/ s.pend # "" \/ Len(s.stack) < 2 \/ e.produced # Produced(STop(s)) THEN Bad(s)
            ELSE Good([s EXCEPT !.stack = SubSeq(@, 1, Len(@) - 1), !.pend = IF e.produced = 1 THEN "consume" ELSE ""])
      [] e.ev = "asm.finish" ->
            IF s.phase # "lines" \/ s.pend # "" \/ e.depth # Len(s.stack) THEN Bad(s)
            ELSE Good([s EXCEPT !.phase = "final", !.want = Produced(STop(s))])
      [] OTHER -> Bad(s)

\* a run that ends with an error may stop after any event: run.exit with ok = FALSE is always accepted
\* (see the run.exit case); the loud failure itself is C16's business.
=============================================================================
