----------------------------- MODULE OutputText -----------------------------
(***************************************************************************)
(* The text `regex generate' prints, as it has to look so that it can be   *)
(* pasted between the quotes of a SecRule line (C02).                      *)
(*                                                                         *)
(* Scan(t) walks over the characters of t with a small lexical state       *)
(* (escaped?, inside a character class?, position) and returns "ok" or     *)
(* the first rule that is broken:                                          *)
(*   printable     every character is printable ASCII (one line)           *)
(*   quote         every double quote is directly preceded by ONE          *)
(*                 backslash that escapes it                               *)
(*   backslash     a literal backslash is never written as \\ (only \x5c)  *)
(*   space-class   \s is always immediately followed by \x0b               *)
(*   flags         flag letters appear only as one leading group (?is),    *)
(*                 letters from {i,s}, sorted, no duplicates; no inline    *)
(*                 flag group (?i) / (?i: / (?-s: ... anywhere else        *)
(*   dangling      the text does not end in the middle of an escape        *)
(*                                                                         *)
(* OperandCloses(t) is the reader's view: SecRule "@rx <t>" - a double     *)
(* quote that is not preceded by a backslash ends the operand.  The lemma  *)
(* checked by MC_OutputText: Scan(t) = "ok" => ~OperandCloses(t).          *)
(***************************************************************************)
EXTENDS Naturals, Sequences, TLC

Printable == { SubSeq(" !\"#$%&'()*+,-./0123456789:;<=>?@ABCDEFGHIJKLMNOPQRSTUVWXYZ[\\]^_`abcdefghijklmnopqrstuvwxyz{|}~", i, i) : i \in 1..95 }
FlagLetters == {"i", "m", "s", "U", "-"}

At(t, i) == IF i >= 1 /\ i <= Len(t) THEN SubSeq(t, i, i) ELSE ""
Has(t, i, p) == i + Len(p) - 1 <= Len(t) /\ SubSeq(t, i, i + Len(p) - 1) = p

\* the leading flag group: number of characters it occupies (0 = none), or "bad"
RECURSIVE LettersEnd(_, _)
LettersEnd(t, i) == IF At(t, i) \in FlagLetters THEN LettersEnd(t, i + 1) ELSE i
LeadingFlags(t) ==
    IF ~Has(t, 1, "(?") THEN 0
    ELSE LET e == LettersEnd(t, 3) IN
         IF e = 3 \/ At(t, e) # ")" THEN 0                    \* (?: or (?P<..> or the like: not a flag prefix
         ELSE LET ls == SubSeq(t, 3, e - 1) IN
              IF ls \in {"i", "s", "is"} THEN e ELSE 99999     \* 99999: malformed flag prefix

\* is there a flag group that starts at position i (unescaped "(" is the caller's business)
FlagGroupAt(t, i) ==
    /\ Has(t, i, "(?")
    /\ LET e == LettersEnd(t, i + 2) IN e > i + 2 /\ At(t, e) \in {")", ":"}

RECURSIVE ScanFrom(_, _, _)
\* esc: the previous character was an unescaped backslash
ScanFrom(t, i, esc) ==
    IF i > Len(t) THEN (IF esc THEN "dangling" ELSE "ok")
    ELSE LET ch == At(t, i) IN
         IF ch \notin Printable THEN "printable"
         ELSE IF esc THEN
              \* the character after a backslash
              IF ch = "\\" THEN "backslash"
              ELSE IF ch = "s" /\ ~Has(t, i + 1, "\\x0b") THEN "space-class"
              \* Perl's white-space class spelled out (as the regexp printer does): it lacks the VT
              ELSE IF ch = "t" /\ Has(t, i + 1, "\\n\\f\\r ") THEN "space-class"
              ELSE ScanFrom(t, i + 1, FALSE)
         ELSE IF ch = "\\" THEN ScanFrom(t, i + 1, TRUE)
         ELSE IF ch = "\"" THEN "quote"
         ELSE IF ch = "(" /\ i > 1 /\ FlagGroupAt(t, i) THEN "flags"
         ELSE ScanFrom(t, i + 1, FALSE)

Scan(t) ==
    LET lf == LeadingFlags(t) IN
    IF lf = 99999 THEN "flags"
    ELSE IF lf = 0 /\ FlagGroupAt(t, 1) THEN "flags"        \* (?i:...) and the like at the very beginning
    ELSE IF lf > 0 /\ lf = Len(t) THEN "ok"
    ELSE ScanFrom(t, 1, FALSE)

\* the SecRule reader: the operand ends at the first quote not preceded by a backslash
RECURSIVE ClosesFrom(_, _)
ClosesFrom(t, i) == IF i > Len(t) THEN FALSE
                    ELSE IF At(t, i) = "\"" /\ At(t, i - 1) # "\\" THEN TRUE
                    ELSE ClosesFrom(t, i + 1)
OperandCloses(t) == ClosesFrom(t, 1)

=============================================================================
