---------------------------- MODULE MC_Toolchain ----------------------------
(***************************************************************************)
(* C08 / C15 / C16: every transition of the tree model from a set of       *)
(* initial trees closed under environment edits.  Each transition          *)
(* (tree before, command, tree after, exit status, components written) is  *)
(* exported and executed on a concrete tree by the harness.                *)
(***************************************************************************)
EXTENDS Toolchain, Json
CONSTANTS Export, MaxEdits,
          Full      \* TRUE: all initial assignments (thorough); FALSE: one per class (quick)
VARIABLE edits

\* in directory walk order: "932100-chain1.ra" sorts before "932100.ra"
MCFiles   == <<"932100-chain1", "932100", "932110">>
MCSources == {"store", "loadonly", "define", "refonly", "flagsprefix", "plain", "unclosed", "incl",
              \* one per fault class of C16, at top level, in a block and in an include
              "missinginc", "malformed", "unknownproc", "badcmdline", "strayend", "badflag", "badflagU", "oddpairs", "inblock", "ininclude", "flaginc", "badcmdlineU",
              \* programs whose result depends on what an include / exclude file is parsed WITH
              "exA", "exB", "incpairs",
              \* compiles and formats, but `format --check' objects to it whatever its layout
              "upperi"}
MCCompiles(s) == s \in {"store", "define", "refonly", "flagsprefix", "plain", "incl", "exA", "exB", "incpairs", "upperi"}
MCLints(s)    == s = "upperi"
MCFormats(s)  == s \notin {"strayend", "badflag", "badflagU", "oddpairs"}
MCFmtAborts(s) == s \in {"badflag", "badflagU", "oddpairs"}

Assign(a, b, c) == [f \in FileSet |-> IF f = "932100-chain1" THEN a ELSE IF f = "932100" THEN b ELSE c]
InitSrcsAll == { Assign("store", "loadonly", "plain"),      \* a stored name must not leak into the next file
              Assign("define", "refonly", "none"),       \* nor a definition
              Assign("flagsprefix", "plain", "incl"),    \* nor flags / prefixes
              Assign("plain", "unclosed", "define"),     \* a failing file in the middle
              Assign("incl", "store", "flagsprefix"),
              Assign("none", "plain", "none"),
              \* faults in the first / middle / last file of an --all run
              Assign("malformed", "plain", "store"), Assign("plain", "missinginc", "define"), Assign("define", "plain", "unknownproc"),
              Assign("exA", "exB", "incpairs"), Assign("incpairs", "exB", "exA"), Assign("badflagU", "incpairs", "plain"),
              Assign("badcmdline", "strayend", "plain"), Assign("plain", "badflag", "oddpairs"), Assign("inblock", "plain", "ininclude"),
              Assign("upperi", "plain", "define"), Assign("store", "upperi", "strayend"), Assign("plain", "flaginc", "store") }

InitSrcsQuick == { Assign("store", "loadonly", "plain"), Assign("define", "refonly", "none"), Assign("exA", "exB", "incpairs"),
                   Assign("plain", "unclosed", "define"), Assign("badcmdline", "strayend", "flagsprefix"),
                   Assign("incl", "badflagU", "oddpairs"), Assign("malformed", "missinginc", "unknownproc"), Assign("inblock", "upperi", "ininclude"), Assign("flaginc", "badcmdlineU", "store") }
InitSrcs == IF Full THEN InitSrcsAll \cup InitSrcsQuick ELSE InitSrcsQuick

Init == /\ src \in InitSrcs
        /\ canon \in { [f \in FileSet |-> FALSE], [f \in FileSet |-> TRUE] }
        /\ stored \in { [f \in FileSet |-> "old"], [f \in FileSet |-> IF f = "932110" THEN "norule" ELSE "old"],
                        [f \in FileSet |-> IF f = "932100-chain1" THEN "nochain" ELSE "old"] }
        /\ rulesFile \in {"one", "none", "two"}
        /\ tests = "raw" /\ marks = "4.0.0"
        /\ exit = 0 /\ wrote = {} /\ last = <<>> /\ pre = TreeRec /\ edits = 0

\* the environment: somebody edits an assembly file (another program, not yet formatted)
Edit(f, s) == /\ edits < MaxEdits /\ Present(f) /\ s # src[f]
              /\ src' = [src EXCEPT ![f] = s] /\ canon' = [canon EXCEPT ![f] = FALSE]
              /\ edits' = edits + 1 /\ last' = <<>> /\ pre' = [TreeRec EXCEPT !.src = src', !.canon = canon']
              /\ exit' = 0 /\ wrote' = {}
              /\ UNCHANGED <<stored, rulesFile, tests, marks>>

\* arguments of the single-target renumber-tests and what they resolve to in the concrete tree
TestArgs == { <<"932100", "test">>, <<"932100.yaml", "test">>, <<"932110", "parked">>, <<"932110.yaml", "parked">>,
              <<"notes", "parked">>, <<"932120", "missing">> }
Cmd == \/ \E f \in FileSet : Generate(f) \/ Compare(f, FALSE) \/ Compare(f, TRUE) \/ FormatCheck(f) \/ Update(f) \/ Format(f)
       \/ CompareAll(FALSE) \/ CompareAll(TRUE) \/ FormatCheckAll \/ RenumberCheck
       \/ Version \/ \E sh \in {"bash", "zsh", "fish", "powershell"} : Completion(sh)
       \/ \E t \in TestArgs, ch \in BOOLEAN : RenumberOne(t[1], t[2], ch)
       \/ UpdateAll \/ FormatAll \/ Renumber \/ Copyright("4.1.0-rc1", TRUE) \/ Copyright("four.one", FALSE)

Next == \/ (Cmd /\ UNCHANGED edits)
        \/ \E f \in FileSet, s \in {"plain", "define"} : Edit(f, s)
Spec == Init /\ [][Next]_<<vars, edits>>

ExportCase == (Export /\ last # <<>>) =>
    PrintT(ToJson([pre |-> pre, cmd |-> last, post |-> TreeRec, exit |-> exit, wrote |-> wrote, reports |-> Reports, gherror |-> GithubError, fmtreports |-> FmtReports]))
=============================================================================
