--------------------------- MODULE MC_OutputText ---------------------------
(***************************************************************************)
(* Mode "lemma":    every string up to MaxLen over a small alphabet of the *)
(*                  characters that matter; Scan(t) = "ok" implies that    *)
(*                  the SecRule reader does not end the operand early.     *)
(* Mode "validate": the texts recorded from the real `regex generate'      *)
(*                  (file outs.ndjson, one {"t": text} per line) are       *)
(*                  scanned one per step; the verdicts are printed.        *)
(***************************************************************************)
EXTENDS OutputText, Json
CONSTANTS Mode, MaxLen
VARIABLES t, i
vars == <<t, i>>

Alphabet == {"a", "\"", "\\", "x", "5", "c", "s", "0", "b", "(", "?", "i", ":", ")"}
Texts == IF Mode = "validate" THEN ndJsonDeserialize("outs.ndjson") ELSE <<>>

Init == t = "" /\ i = 0
NextLemma    == Mode = "lemma" /\ Len(t) < MaxLen /\ \E ch \in Alphabet : t' = t \o ch /\ i' = i
NextValidate == Mode = "validate" /\ i < Len(Texts) /\ i' = i + 1 /\ t' = Texts[i + 1].t
Next == NextLemma \/ NextValidate
Spec == Init /\ [][Next]_vars

Lemma   == (Mode = "lemma" /\ Scan(t) = "ok") => ~OperandCloses(t)
\* the scanner is not vacuous: it accepts the escaped forms
ASSUME /\ Scan("a\\\"b") = "ok" /\ Scan("\\x5c\\\"") = "ok" /\ Scan("(?is)[\\s\\x0b]a\\(?i:b") = "ok"
       /\ Scan("a\"b") = "quote" /\ Scan("a\\\\b") = "backslash" /\ Scan("\\sa") = "space-class" /\ Scan("[^\\t\\n\\f\\r ]") = "space-class" /\ Scan("[\\t\\n]") = "ok"
       /\ Scan("(?si)a") = "flags" /\ Scan("a(?i:b)") = "flags" /\ Scan("(?i:b)") = "flags"
Verdict == (Mode = "validate" /\ i > 0) => PrintT(ToJson([i |-> i, v |-> Scan(t), closes |-> OperandCloses(t)]))
=============================================================================
