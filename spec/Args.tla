------------------------------- MODULE Args -------------------------------
(***************************************************************************)
(* Rule arguments and the CRS root (cmd/regex.go parseRuleId,              *)
(* cmd/flag_types.go findRootDirectory), C18.                              *)
(*                                                                         *)
(* Resolve(arg): the accepted grammar is                                   *)
(*      NNNNNN [ -chain K ] [ .ra ]        (six digits, K decimal <= 255)  *)
(* and yields the file regex-assembly/NNNNNN[-chainK].ra, the rule id and  *)
(* the chain offset.  Everything else is rejected - never wrapped,         *)
(* truncated or guessed.                                                   *)
(*                                                                         *)
(* Root(dirs, start): directories are sequences of names; dirs is the set  *)
(* of directories that contain a `regex-assembly' directory.  The root is  *)
(* the nearest ancestor-or-self of start that is in dirs.                  *)
(***************************************************************************)
EXTENDS Naturals, Sequences, TLC

Digits == {"0", "1", "2", "3", "4", "5", "6", "7", "8", "9"}
At(s, i) == SubSeq(s, i, i)
IsDigits(s) == s # "" /\ \A i \in 1..Len(s) : At(s, i) \in Digits
DigitVal(d) == CHOOSE n \in 0..9 : SubSeq("0123456789", n + 1, n + 1) = d

\* value of a decimal numeral, saturating at 1000 (enough to compare with 255)
RECURSIVE NumFrom(_, _, _)
NumFrom(s, i, acc) == IF i > Len(s) THEN acc
                      ELSE NumFrom(s, i + 1, IF acc >= 1000 THEN 1000 ELSE acc * 10 + DigitVal(At(s, i)))
Num(s) == NumFrom(s, 1, 0)

EndsWith(s, t) == Len(s) >= Len(t) /\ SubSeq(s, Len(s) - Len(t) + 1, Len(s)) = t
StartsWithAt(s, i, t) == i + Len(t) - 1 <= Len(s) /\ SubSeq(s, i, i + Len(t) - 1) = t

Reject == [ok |-> FALSE, file |-> "", id |-> "", k |-> 0]

Resolve(arg) ==
    LET core == IF EndsWith(arg, ".ra") THEN SubSeq(arg, 1, Len(arg) - 3) ELSE arg IN
    IF Len(core) < 6 \/ ~IsDigits(SubSeq(core, 1, 6)) THEN Reject
    ELSE LET id   == SubSeq(core, 1, 6)
             rest == SubSeq(core, 7, Len(core))
         IN  IF rest = "" THEN [ok |-> TRUE, file |-> id \o ".ra", id |-> id, k |-> 0]
             ELSE IF ~StartsWithAt(rest, 1, "-chain") THEN Reject
             ELSE LET ks == SubSeq(rest, 7, Len(rest)) IN
                  IF ~IsDigits(ks) \/ Num(ks) > 255 THEN Reject
                  ELSE [ok |-> TRUE, file |-> core \o ".ra", id |-> id, k |-> Num(ks)]

(***************************************************************************)
(* `regex format ARG': a rule argument names an assembly file, every other  *)
(* name a file of the include directory.  ".ra" is appended only to a name  *)
(* without any extension - an argument with a foreign extension is never    *)
(* bent into a rule file.                                                   *)
(***************************************************************************)
HasExt(arg) == \E i \in 1..Len(arg) : At(arg, i) = "."
FormatTarget(arg) ==
    LET a == IF HasExt(arg) THEN arg ELSE arg \o ".ra" IN
    IF Resolve(a).ok THEN "regex-assembly/" \o Resolve(a).file ELSE "regex-assembly/include/" \o a

(***************************************************************************)
(* Root search.                                                            *)
(***************************************************************************)
IsPrefixDir(a, b) == Len(a) <= Len(b) /\ SubSeq(b, 1, Len(a)) = a
Ancestors(start)  == { SubSeq(start, 1, n) : n \in 0..Len(start) }
Root(dirs, start) ==
    LET C == Ancestors(start) \cap dirs IN
    IF C = {} THEN [ok |-> FALSE, dir |-> <<>>]
    ELSE [ok |-> TRUE, dir |-> CHOOSE d \in C : \A e \in C : Len(e) <= Len(d)]
=============================================================================
