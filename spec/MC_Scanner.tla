----------------------------- MODULE MC_Scanner -----------------------------
EXTENDS Scanner, Json
CONSTANTS Export,
          Full      \* TRUE (thorough): also two long lines in one input, and five-line inputs
\* three lines, one of them long, at every position
MCInputs == { [i \in 1..3 |-> IF i = p THEN c ELSE "short"] : p \in 1..3, c \in Classes \ {"short"} }
            \cup { <<c>> : c \in Classes }
            \cup (IF Full
                  THEN { [i \in 1..3 |-> IF i = p THEN c1 ELSE IF i = q THEN c2 ELSE "short"] :
                           p \in 1..3, q \in 1..3, c1 \in {"at", "huge"}, c2 \in {"below", "above", "huge"} }
                       \cup { [i \in 1..5 |-> IF i = p THEN c ELSE "short"] : p \in 1..5, c \in {"at", "above", "huge"} }
                  ELSE {})
\* "expand": no input line is long, but definition expansion makes one inside the pipeline
\* "fmtdirective": the long line is a directive (prefix line) that format parses and writes back
Consumers == {"generate", "stdin", "include", "exclude", "suffix", "format", "fmtdirective", "renumber", "copyright", "rules", "expand"}
ExportCase == (Export /\ outcome # "running") =>
    \A cons \in Consumers, fnl \in BOOLEAN :
        PrintT(ToJson([consumer |-> cons, lines |-> input, fnl |-> fnl,
                       allowed |-> IF outcome = "ok" THEN "all-lines" ELSE "loud-error"]))
=============================================================================
