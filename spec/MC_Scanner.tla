----------------------------- MODULE MC_Scanner -----------------------------
EXTENDS Scanner, Json
CONSTANT Export
\* three lines, one of them long, at every position
MCInputs == { [i \in 1..3 |-> IF i = p THEN c ELSE "short"] : p \in 1..3, c \in Classes \ {"short"} }
            \cup { <<c>> : c \in Classes }
\* "expand": no input line is long, but definition expansion makes one inside the pipeline
Consumers == {"generate", "include", "exclude", "suffix", "format", "renumber", "copyright", "rules", "expand"}
ExportCase == (Export /\ outcome # "running") =>
    \A cons \in Consumers, fnl \in BOOLEAN :
        PrintT(ToJson([consumer |-> cons, lines |-> input, fnl |-> fnl,
                       allowed |-> IF outcome = "ok" THEN "all-lines" ELSE "loud-error"]))
=============================================================================
