------------------------------ MODULE Classify ------------------------------
(***************************************************************************)
(* Line classification of the parser (regex/parser/parser.go parseLine,    *)
(* regex/definitions.go).  parseLine ranges over a MAP of seven directive  *)
(* patterns and takes the first one that matches, so the kind of a line    *)
(* depends on the iteration order unless at most one pattern can claim it. *)
(* The patterns are transcribed as string matchers; `order' makes the      *)
(* iteration order explicit.                                               *)
(***************************************************************************)
EXTENDS Naturals, Sequences, FiniteSets, TLC

CONSTANT IncludeUnanchored   \* TRUE: the pinned include pattern without ^ (known deviation)

At(s, i)  == IF i >= 1 /\ i <= Len(s) THEN SubSeq(s, i, i) ELSE ""
WS(c)     == c \in {" ", "\t"}
Has(s, i, p) == i + Len(p) - 1 <= Len(s) /\ SubSeq(s, i, i + Len(p) - 1) = p
RECURSIVE SkipWS(_, _)
SkipWS(s, i) == IF i <= Len(s) /\ WS(At(s, i)) THEN SkipWS(s, i + 1) ELSE i
RECURSIVE SkipNonWS(_, _)
SkipNonWS(s, i) == IF i <= Len(s) /\ ~WS(At(s, i)) THEN SkipNonWS(s, i + 1) ELSE i
TrimLeft(s) == SubSeq(s, SkipWS(s, 1), Len(s))
IsBlank(s)  == SkipWS(s, 1) > Len(s)
NameChars == { SubSeq("abcdefghijklmnopqrstuvwxyzABCDEFGHIJKLMNOPQRSTUVWXYZ0123456789-_", i, i) : i \in 1..64 }
RECURSIVE SkipName(_, _)
SkipName(s, i) == IF At(s, i) \in NameChars THEN SkipName(s, i + 1) ELSE i

\* ^\s*##!(?:[^^$+><=]|$)
MComment(s) == LET i == SkipWS(s, 1) IN Has(s, i, "##!") /\ At(s, i + 3) \notin {"^", "$", "+", ">", "<", "="}
\* ^##!>\s*KEYWORD\s+\S+   (at position i)
KeywordAt(s, i, kw) == /\ Has(s, i, "##!>")
                       /\ LET j == SkipWS(s, i + 4) IN
                          /\ Has(s, j, kw) /\ WS(At(s, j + Len(kw)))
                          /\ SkipWS(s, j + Len(kw)) <= Len(s)
MInclude(s) == IF IncludeUnanchored THEN \E i \in 1..Len(s) : KeywordAt(s, i, "include")
               ELSE KeywordAt(s, 1, "include")
MInclExc(s) == KeywordAt(s, 1, "include-except")
\* ^(##!>\s*define\s+([a-zA-Z0-9-_]+)\s+)(\S+)\s*$
MDefine(s)  == /\ Has(s, 1, "##!>")
               /\ LET j == SkipWS(s, 5) IN
                  /\ Has(s, j, "define") /\ WS(At(s, j + 6))
                  /\ LET n0 == SkipWS(s, j + 6)
                         n1 == SkipName(s, n0)
                     IN  /\ n1 > n0 /\ WS(At(s, n1))
                         /\ LET v0 == SkipWS(s, n1)
                                v1 == SkipNonWS(s, v0)
                            IN  v1 > v0 /\ SkipWS(s, v1) > Len(s)
\* ^##!X\s*(.*\S)\s*$
MMarker(s, m) == Has(s, 1, m) /\ ~IsBlank(SubSeq(s, Len(m) + 1, Len(s)))
MFlags(s)  == MMarker(s, "##!+")
MPrefix(s) == MMarker(s, "##!^")
MSuffix(s) == MMarker(s, "##!$")

Patterns == {"include", "include-except", "definition", "comment", "flags", "prefix", "suffix"}
Matches(p, s) == CASE p = "include" -> MInclude(s) [] p = "include-except" -> MInclExc(s) [] p = "definition" -> MDefine(s)
                   [] p = "comment" -> MComment(s) [] p = "flags" -> MFlags(s) [] p = "prefix" -> MPrefix(s) [] p = "suffix" -> MSuffix(s)

Claimants(line) == LET s == TrimLeft(line) IN { p \in Patterns : Matches(p, s) }

\* parseLine: the first pattern, in the given order, that matches
Kind(line, order) ==
    IF IsBlank(line) THEN "empty"
    ELSE LET s == TrimLeft(line)
             hit == { i \in 1..Len(order) : Matches(order[i], s) }
         IN  IF hit = {} THEN "regular" ELSE order[CHOOSE i \in hit : \A j \in hit : i <= j]
=============================================================================
