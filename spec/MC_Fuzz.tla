------------------------------ MODULE MC_Fuzz ------------------------------
(***************************************************************************)
(* C19: token-level input generator.  A text is a sequence of tokens       *)
(* (directive fragments, regex metacharacters, escapes, braces, quotes,    *)
(* names of control / non-ASCII bytes that the harness substitutes).  The  *)
(* specification of the compiler's outcome is TOTAL: every text leads to   *)
(* exactly one of                                                          *)
(*     "regex"        a regular expression is printed, exit 0              *)
(*     "error"        an error is reported, exit 1                         *)
(*     "diagnostic"   one of the deliberate panics with a message, exit 2  *)
(* and never to a runtime fault or to no termination.  Outcome(text) is    *)
(* left open here (nondeterministic choice of the three); the MC_C01 /     *)
(* MC_Parse models pin it down for well-formed programs.                   *)
(***************************************************************************)
EXTENDS Naturals, Sequences, TLC, Json
CONSTANTS MaxTokens, Export
VARIABLES toks
vars == <<toks>>

Tokens == <<
  "a", "b|c", "(", ")", "(?:", "(?i:", "(?-s:", "(?s)", "(?i)", "\\(", "\\)", "?i:", "\\(?i:", "\\(?s:b", "\\(?i)", "?", "*", "+", "|", "[", "]", "[^", "a-",
  "{", "}", "{{", "}}", "{{x}}", "{2,3}", "\\", "\\\\", "\"", "\\\"", "^", "$", ".", "\\x", "\\x5c", "\\s", " ", "\t",
  "\\Q", "\\E", "\\Q[", "\\Q[^", "\\Q(?i:",     \* literal quoting: the text parses although it ends in an open bracket
  "NL", "CR", "CTRL1", "NUL", "UTF8", "BAD8",
  "##!", "##!>", "##!<", "##!=>", "##!=<", "##!+", "##!^", "##!$", " assemble", " cmdline", " unix", " define", " x", " include",
  " include-except", " f", " --", " i", "@", "~", "'",
  \* whole directive lines (each ends its line)
  "CMDUNIX", "ENDBLK", "INCLDEL", "INCLQUOTE", "DEFSELF", "DEFGROW", "DEFCYC1", "DEFCYC2", "DEFOK", "STOREX", "LOADX", "INCLF", "INCLSELF"
>>

Init == toks = <<>>
Next == Len(toks) < MaxTokens /\ \E i \in 1..Len(Tokens) : toks' = Append(toks, i)
Spec == Init /\ [][Next]_vars

Outcomes == {"regex", "error", "diagnostic"}
\* totality: whatever the text, the set of allowed outcomes is not empty and nothing else is allowed
Total == Outcomes # {}

ExportCase == (Export /\ Len(toks) > 0) => PrintT(ToJson([toks |-> [i \in 1..Len(toks) |-> Tokens[toks[i]]]]))
=============================================================================
