------------------------------ MODULE MC_Rules ------------------------------
(***************************************************************************)
(* C11 / C12: rules files of up to MaxItems items over a vocabulary of     *)
(* comments (some mentioning ids and SecRule text), other directives and   *)
(* rules (chains of length 0..2, negated and non-rx operators, ids that    *)
(* share a prefix), every target (R, k) and a pool of generated regexes    *)
(* whose own text looks like the delimiters the line algorithm searches.   *)
(***************************************************************************)
EXTENDS RulesFile, Json

CONSTANTS MaxItems, Export, Theorem

VARIABLE items      \* sequence of indices into Voc
vars == <<items>>

Voc == <<
  IComment("# plain comment"),
  IComment("# rule id:932100 is defined below"),
  IComment("    # SecRule ARGS \"@rx commented\" \\"),
  IComment(""),
  IComment("SecMarker \"END-932\""),
  IComment("#SecRule ARGS \"@rx old1\" \\"),        \* a commented-out copy of a rule line
  IComment("    #    \"id:932100,\\"),                  \* an INDENTED commented-out id action
  IComment("\t# was: \"id:932140,\\ SecRule ARGS \"@rx old1\" \\"),
  IRule("932100", << Link("@rx ", "old1") >>),
  IRule("932100", << Link("@rx ", "old1"), Link("@rx ", "old2 x"), Link("!@rx ", "old3") >>),
  IRule("932101", << Link("@rx ", "a\\\"@rx b") >>),
  IRule("932110", << Link("!@rx ", "neg"), Link("@pm ", "w1 w2") >>),
  IRule("9321001", << Link("@rx ", "seven"), Link("@rx ", "seven2") >>),
  IRule("932120", << Link("@rx ", "x\\\" \\x5cy"), Link("@rx ", "") >>),
  IRule("932140", << Link("@rx ", "old1") >>),        \* same SecRule line text as rule 932100
  IRule("932130", << Link("@rx ", "p1"), Link("@pm ", "w"), Link("@rx ", "p3"), Link("!@rx ", "p4") >>)
>>

\* generated regexes (the harness checks that `regex generate' really prints them)
GPool == << "foo", "a\\\"b", "a\\\"@rx b", "x\\\" \\x5cy", "a$1b", "(?i)[ab]", "x y", "ab ", "ld1", "" >>   \* one ENDS in a blank, one is a substring of the stored operand old1

Ids == {"932100", "932101", "932110", "932120", "932130", "932140", "932999"}
Ks  == 0..3

File1(crlf, fnl) == RFile([i \in 1..Len(items) |-> Voc[items[i]]], crlf, fnl)

\* at most one rule per id in a file (ids are unique in CRS)
IdsUsed == { Voc[items[i]].id : i \in { j \in 1..Len(items) : Voc[items[j]].k = "rule" } }

Init == items = <<>>
Next == /\ Len(items) < MaxItems
        /\ \E i \in 1..Len(Voc) :
             /\ (Voc[i].k = "rule" => Voc[i].id \notin IdsUsed)
             /\ items' = Append(items, i)
Spec == Init /\ [][Next]_vars

(***************************************************************************)
(* Design theorems: the line algorithm refines the abstract operation.     *)
(***************************************************************************)
LinesAfter(f, R, k, G) == LineUpdate(LinesOf(f.items), R, k, G)

Thm(f) ==
    \A R \in Ids, k \in Ks, G \in { GPool[i] : i \in 1..Len(GPool) } :
       LET a == Update(f, R, k, G)
           l == LinesAfter(f, R, k, G)
       IN  /\ (a.err = "") <=> (l.err = "")                                   \* same targets found / rejected
           /\ a.err = "" =>
                /\ l.lines = LinesOf(a.file.items)                            \* LineRefines: only that operand changed
                /\ LineRead(l.lines, R, k) = [err |-> "", arg |-> G]          \* RoundTrip: compare reads G back
                /\ LineUpdate(l.lines, R, k, G).lines = l.lines               \* second update is a no-op
                /\ Stored(a.file, R, k) = G

Theorems == Theorem => Thm(File1(FALSE, TRUE))

GSel(R, k) == GPool[((Len(items) * 3 + k * 5 + Len(R) + (IF R = "932101" THEN 1 ELSE 0)
                      + (IF R = "932110" THEN 2 ELSE 0) + (IF R = "932120" THEN 3 ELSE 0)
                      + (IF R = "932130" THEN 4 ELSE 0) + (IF R = "932140" THEN 5 ELSE 0)) % Len(GPool)) + 1]

Case(f, R, k) ==
    LET G == GSel(R, k)
        a == Update(f, R, k, G)
        t == FindTarget(LinesOf(f.items), R, k)
    IN  [file   |-> Bytes(f),
         rule   |-> R, chain |-> k, regex |-> G,
         err    |-> a.err,
         after  |-> IF a.err = "" THEN Bytes(a.file) ELSE Bytes(f),
         stored |-> IF a.err = "" THEN Stored(f, R, k) ELSE "",
         off    |-> IF a.err = "" THEN Len(JoinLines(SubSeq(LinesOf(f.items), 1, t - 1), 1, Eol(f), TRUE))
                                      + Len(Split(LinesOf(f.items)[t]).pre)
                    ELSE 0,
         tline  |-> t - 1,                      \* 0-based index of the target line (-1: not found)
         nrules |-> Len(SelectSeq(f.items, LAMBDA it : it.k = "rule")),
         crlf   |-> f.crlf]

ExportCase == Export =>
    /\ \A R \in Ids, k \in Ks : PrintT(ToJson(Case(File1(FALSE, TRUE), R, k)))
    /\ (Len(items) > 0 =>
          /\ PrintT(ToJson(Case(File1(TRUE, TRUE), "932100", 0)))
          /\ PrintT(ToJson(Case(File1(TRUE, FALSE), "932100", 2)))
          /\ PrintT(ToJson(Case(File1(FALSE, FALSE), "932100", 0)))
          /\ PrintT(ToJson(Case(File1(FALSE, FALSE), "932110", 0))))
=============================================================================
