------------------------------ MODULE Assembly ------------------------------
(***************************************************************************)
(* One compilation (Operator.Run) as a state machine with variables: the   *)
(* operational form of AsmCore's I-machine, one action per critical step   *)
(* of the code.                                                            *)
(*                                                                         *)
(*   Enter      processorStack reset, root processor pushed                *)
(*   Line       one iteration of the scanner loop in assemble()            *)
(*   Finish     input exhausted: top processor completed, final pass       *)
(*   Exit       Run returns                                                *)
(*                                                                         *)
(* gstack is the PACKAGE-LEVEL stack depth as the next Run will find it    *)
(* (it survives a failed run); the shape machine of AsmShape runs in       *)
(* lockstep on the events the hooks emit at each step (EventsOf is the     *)
(* specification of the instrumentation).  TLC checks that                 *)
(*   - every event sequence the design can produce is accepted by          *)
(*     AsmShape!SStep (so the trace acceptor rejects no correct execution) *)
(*   - the shape state is the abstraction of the I-machine state after     *)
(*     every step (so what the acceptor tracks is what the design means)   *)
(*   - stack discipline: depth >= 1 while lines are consumed, the stash    *)
(*     only grows, a run that succeeds ends with an empty stack.           *)
(***************************************************************************)
EXTENDS AsmCore, AsmShape

CONSTANTS Schedules,  \* set of schedules; a schedule is a sequence of programs run one after the other in ONE process
          StashNames

VARIABLES todo,     \* programs still to run (a sequence)
          lines,    \* remaining lines of the current run
          ist,      \* I-machine state
          sh,       \* shape-machine state (AsmShape)
          phase,    \* "idle" | "lines" | "done"
          gstack,   \* depth of the package-level stack left behind
          accepted  \* all events so far were accepted by the shape machine
vars == <<todo, lines, ist, sh, phase, gstack, accepted>>

\* feed a sequence of events to the shape machine
RECURSIVE Feed(_, _)
Feed(s, evs) == IF evs = <<>> THEN [s |-> s, ok |-> TRUE]
                ELSE LET r == SStep(s, Head(evs)) IN
                     IF ~r.ok THEN r ELSE Feed(r.s, Tail(evs))

Ev(name, fields) == [ev |-> name] @@ fields

\* abstraction of an I-machine state: per frame kind, number of pending lines, output empty
Abs(st) == [i \in 1..Len(st.stack) |-> [kind |-> st.stack[i].kind, n |-> Len(st.stack[i].lines), out |-> IsEmptyRT(st.stack[i].out)]]

StateEv(st) == Ev("asm.state", [depth |-> Len(st.stack), kind |-> Top(st).kind, n |-> Len(Top(st).lines), out |-> IsEmptyRT(Top(st).out)])

FlushEvs(fr) ==
    IF Len(fr.lines) = 1 /\ ~HasTopAlt(fr.lines[1].f)
    THEN << Ev("asm.flush", [lines |-> 1, raw |-> TRUE]), Ev("asm.flush", [lines |-> 0, raw |-> FALSE]) >>
    ELSE << Ev("asm.flush", [lines |-> Len(fr.lines), raw |-> FALSE]) >>

\* the events one iteration of the scanner loop emits (st: state before, st2: state after)
EventsOf(st, line, st2) ==
    LET fr == Top(st)
        tail == IF st2.err = "" THEN << StateEv(st2) >> ELSE <<>>
    IN
    CASE line.k = "start" ->
            IF st2.err # "" THEN <<>> ELSE << Ev("asm.start", [name |-> line.p, arg |-> line.a]) >> \o tail
      [] line.k = "end" ->
            IF Len(st.stack) < 2 THEN <<>>      \* endPreprocessor fails before anything is consumed
            ELSE LET res == CompleteFrame(fr)
                     par == st.stack[Len(st.stack) - 1]
                 IN  << Ev("asm.end", [produced |-> Len(res)]) >>
                     \o (IF res = <<>> THEN <<>>
                         ELSE IF par.kind = "cmdline" THEN << Ev("cmd.word", [empty |-> IsEmptyRT(res[1])]) >>
                         ELSE << Ev("asm.entry", [n |-> Len(par.lines) + 1]) >>)
                     \o tail
      [] fr.kind = "cmdline" -> << Ev("cmd.word", [empty |-> FALSE]) >> \o tail
      [] line.k = "entry"  -> << Ev("asm.entry", [n |-> Len(fr.lines) + 1]) >> \o tail
      [] line.k = "concat" -> << Ev("asm.load", [name |-> ""]) >> \o FlushEvs(fr) \o tail
      [] line.k = "load"   -> << Ev("asm.load", [name |-> line.n]) >> \o FlushEvs(fr) \o tail
      [] line.k = "store"  -> << Ev("asm.store", [name |-> line.n]) >>
                              \o (IF line.n = "" THEN <<>> ELSE FlushEvs(fr)) \o tail

Init == /\ todo \in Schedules /\ lines = <<>> /\ ist = IInit(StashNames) /\ sh = SInit
        /\ phase = "idle" /\ gstack = 0 /\ accepted = TRUE

\* Run is entered: whatever the package-level stack holds, it is replaced
Enter == /\ phase = "idle" /\ todo # <<>>
         /\ LET p == Head(todo) IN
              /\ todo' = Tail(todo) /\ lines' = p
              /\ ist' = [IInit(StashNames) EXCEPT !.stash = ist.stash]   \* the context (stash) belongs to the caller
              /\ LET r == Feed(sh, << Ev("run.enter", [stack |-> gstack]) >>) IN sh' = r.s /\ accepted' = (accepted /\ r.ok)
              /\ phase' = "lines" /\ gstack' = 1

Line == /\ phase = "lines" /\ lines # <<>> /\ ist.err = ""
        /\ LET st2 == IStep(ist, Head(lines))
               r   == Feed(sh, EventsOf(ist, Head(lines), st2))
           IN  /\ ist' = st2 /\ sh' = r.s /\ accepted' = (accepted /\ r.ok)
               /\ gstack' = Len(st2.stack)
        /\ lines' = Tail(lines) /\ UNCHANGED <<todo, phase>>

\* an error ends the run at once; the package-level stack keeps what it held
Fail == /\ phase = "lines" /\ ist.err # ""
        /\ LET r == Feed(sh, << Ev("run.exit", [ok |-> FALSE, depth |-> gstack]) >>) IN sh' = r.s /\ accepted' = (accepted /\ r.ok)
        /\ phase' = "idle" /\ UNCHANGED <<todo, lines, ist, gstack>>

Finish == /\ phase = "lines" /\ lines = <<>> /\ ist.err = ""
          /\ LET res   == CompleteFrame(Top(ist))
                 depth == Len(ist.stack)
                 ok    == depth = 1
                 evs   == << Ev("asm.finish", [depth |-> depth]) >>
                          \o (IF res = <<>> THEN <<>> ELSE << Ev("asm.entry", [n |-> 1]) >>)
                          \o << Ev("run.exit", [ok |-> ok, depth |-> depth - 1]) >>
                 r     == Feed(sh, evs)
             IN  /\ sh' = r.s /\ accepted' = (accepted /\ r.ok)
                 /\ gstack' = depth - 1
          /\ phase' = "idle" /\ UNCHANGED <<todo, lines, ist>>

Next == Enter \/ Line \/ Fail \/ Finish
Spec == Init /\ [][Next]_vars

(***************************************************************************)
(* Properties.                                                             *)
(***************************************************************************)
\* the trace acceptor accepts every execution of the design
AcceptorComplete == accepted
\* and tracks exactly the abstraction of the design's state
AcceptorTracks == (phase = "lines" /\ ist.err = "") =>
    /\ Len(sh.stack) = Len(ist.stack)
    /\ \A i \in 1..Len(ist.stack) :
         /\ sh.stack[i].kind = Abs(ist)[i].kind /\ sh.stack[i].n = Abs(ist)[i].n
         /\ (sh.outKnown \/ i < Len(ist.stack)) => sh.stack[i].out = Abs(ist)[i].out
\* stack discipline
DepthOK   == phase = "lines" => Len(ist.stack) >= 1 \/ ist.err # ""
StashGrows == [][\A n \in StashNames : ist.stash[n] # <<>> => ist'.stash[n] # <<>>]_vars
=============================================================================
