----------------------------- MODULE Copyright -----------------------------
(***************************************************************************)
(* `chore update-copyright -v V -y Y' (chore/update_copyright.go).         *)
(* A rules/setup file is a sequence of lines; five kinds of lines carry a  *)
(* marker (version header, short setup version, copyright year, ver:       *)
(* action, component signature), everything else is text.  One invocation  *)
(* rewrites every marker it RECOGNISES; the property is about sequences of *)
(* invocations: what one run wrote must be recognised by the next.         *)
(***************************************************************************)
EXTENDS Naturals, Sequences, TLC

CONSTANT Narrow   \* TRUE: the pinned read-side patterns of ver:/signature (known deviation)

Hdr(style, v)        == [k |-> "hdr", style |-> style, v |-> v]          \* # OWASP CRS ver.4.0.0
Setup(pre, d, post)  == [k |-> "setup", pre |-> pre, d |-> d, post |-> post]
Cpy(y, style)        == [k |-> "cpy", y |-> y, style |-> style]
Ver(pre, v, post)    == [k |-> "ver", pre |-> pre, v |-> v, post |-> post]
Sig(v, post)         == [k |-> "sig", v |-> v, post |-> post]
Txt(t)               == [k |-> "txt", t |-> t]

Raw(l) ==
    CASE l.k = "hdr"   -> "# OWASP " \o l.style \o " ver." \o l.v
      [] l.k = "setup" -> l.pre \o "setvar:tx.crs_setup_version=" \o l.d \o l.post
      [] l.k = "cpy"   -> "# Copyright (c) 2021-" \o l.y \o " " \o l.style \o " project. All rights reserved."
      [] l.k = "ver"   -> l.pre \o "ver:'OWASP_CRS/" \o l.v \o l.post
      [] l.k = "sig"   -> "SecComponentSignature \"OWASP_CRS/" \o l.v \o l.post
      [] l.k = "txt"   -> l.t

RECURSIVE BytesOf(_, _, _)
BytesOf(ls, i, fnl) == IF i > Len(ls) THEN ""
                       ELSE Raw(ls[i]) \o (IF i < Len(ls) \/ fnl THEN "\n" ELSE "") \o BytesOf(ls, i + 1, fnl)

DigitChars == {"0", "1", "2", "3", "4", "5", "6", "7", "8", "9"}
RECURSIVE DigitsOf(_)
DigitsOf(s) == IF s = "" THEN "" ELSE (IF SubSeq(s, 1, 1) \in DigitChars THEN SubSeq(s, 1, 1) ELSE "") \o DigitsOf(Tail(s))

(***************************************************************************)
(* What the read side recognises of a version that is already there.       *)
(* Intended: the whole version, whatever its spelling.  Narrow (pinned     *)
(* patterns \d+\.\d+\.\d+(-[a-z0-9-]+)?): a leading x.y.z with a lower-    *)
(* case pre-release tag only; the rest of the old text stays.              *)
(***************************************************************************)
IsLowerTagChar(ch) == ch \in DigitChars \cup {"-"} \cup
    {"a","b","c","d","e","f","g","h","i","j","k","l","m","n","o","p","q","r","s","t","u","v","w","x","y","z"}
RECURSIVE DigitRun(_, _)
DigitRun(s, i) == IF i <= Len(s) /\ SubSeq(s, i, i) \in DigitChars THEN DigitRun(s, i + 1) ELSE i
\* length of the prefix matched by \d+\.\d+\.\d+(-[a-z0-9-]+)? ; 0 = no match
NarrowMatch(s) ==
    LET a == DigitRun(s, 1) IN
    IF a = 1 \/ a > Len(s) \/ SubSeq(s, a, a) # "." THEN 0 ELSE
    LET b == DigitRun(s, a + 1) IN
    IF b = a + 1 \/ b > Len(s) \/ SubSeq(s, b, b) # "." THEN 0 ELSE
    LET c == DigitRun(s, b + 1) IN
    IF c = b + 1 THEN 0 ELSE
    LET RECURSIVE tag(_)
        tag(i) == IF i <= Len(s) /\ IsLowerTagChar(SubSeq(s, i, i)) THEN tag(i + 1) ELSE i
        t == IF c <= Len(s) /\ SubSeq(s, c, c) = "-" THEN tag(c + 1) ELSE c
    IN  (IF t > c + 1 THEN t ELSE c) - 1

NewVersion(old, V) ==
    IF ~Narrow THEN V
    ELSE LET n == NarrowMatch(old) IN IF n = 0 THEN old ELSE V \o SubSeq(old, n + 1, Len(old))

ApplyLine(l, V, Y) ==
    CASE l.k = "hdr"   -> [l EXCEPT !.v = V]
      [] l.k = "setup" -> [l EXCEPT !.d = DigitsOf(V)]
      [] l.k = "cpy"   -> [l EXCEPT !.y = Y]
      [] l.k = "ver"   -> [l EXCEPT !.v = NewVersion(l.v, V)]
      [] l.k = "sig"   -> [l EXCEPT !.v = NewVersion(l.v, V)]
      [] l.k = "txt"   -> l

Apply(ls, V, Y) == [i \in 1..Len(ls) |-> ApplyLine(ls[i], V, Y)]

Shows(ls, V, Y) == \A i \in 1..Len(ls) :
    CASE ls[i].k \in {"hdr", "ver", "sig"} -> ls[i].v = V
      [] ls[i].k = "setup" -> ls[i].d = DigitsOf(V)
      [] ls[i].k = "cpy"   -> ls[i].y = Y
      [] OTHER -> TRUE
=============================================================================
