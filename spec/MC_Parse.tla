------------------------------ MODULE MC_Parse ------------------------------
(***************************************************************************)
(* Parser-level families of programs (C05 includes, C06 include-except and *)
(* suffix replacement, C07 definitions).  The model grows a main program   *)
(* line by line over a family-specific vocabulary; a fixed set of include  *)
(* and exclude files surrounds it.  Every complete program is compiled by  *)
(* the specification (AsmParse!Compile) and exported with                  *)
(*   - the language of its plain reading,                                  *)
(*   - `same': the program with every include typed in place, every        *)
(*     definition substituted and every exclusion / suffix rewrite carried *)
(*     out by the specification; the real tool must print byte-identical   *)
(*     output for both.                                                    *)
(***************************************************************************)
EXTENDS AsmParse, Json

CONSTANTS Family,     \* "inc", "exc" or "def"
          MaxLines, MaxDepth, Export, Theorem

VARIABLES prog, meta
vars == <<prog, meta>>

Names == {"x"}
MCSigma == {"a", "b", "\n"}
MCDev   == {}
MCCfg   == [unix |-> NoPattern, windows |-> NoPattern]
MCLeafD(i, fl) == {}

La == Lit("a")  Lb == Lit("b")
W(txt)   == PT(RT(txt, Word(Chars(txt))))                      \* a literal word
E(txt)   == SEntry(<<W(txt)>>)
Bar      == PT(RT("|", << <<>>, <<>> >>))                      \* the text "|": splits an alternative in two
Aplus    == PT(RT("a+", One(Q("plus", La))))
AorB     == PT(RT("a|b", << <<La>>, <<Lb>> >>))
ClsAB    == PT(RT("[ab]", One(Cls({"a", "b"}))))
Brace    == PT(RT("b{1,2}", << <<Lb, Q("opt", Lb)>> >>))          \* a value with quantifier braces
Dollar   == PT(RT("b$a?", << <<Lb, Eol, Q("opt", La)>> >>))       \* a value with `$' followed by a letter

WithInd(l) == IF "ind" \in DOMAIN l THEN l ELSE (l @@ [ind |-> ""])

(***************************************************************************)
(* The surrounding files.                                                  *)
(***************************************************************************)
FilesInc == [
  plain |-> [dir |-> "include", lines |-> << E("a"), E("bb") >>],
  noisy |-> [dir |-> "include", lines |-> << SComment("##! word list"), E("ab"), SBlank(""),
                                            (E("b") @@ [ind |-> "  \t"]), SBlank("  ") >>],
  pfx   |-> [dir |-> "include", lines |-> << SPrefix(<<W("a")>>), E("b"), E("ab") >>],
  sfx   |-> [dir |-> "include", lines |-> << E("a"), E("ba"), SSuffix(<<W("b")>>) >>],
  both  |-> [dir |-> "include", lines |-> << SPrefix(<<AorB>>), E("a"), E("b"), SSuffix(<<W("b")>>) >>],
  defs  |-> [dir |-> "include", lines |-> << SDefine("v", <<Aplus>>), SEntry(<<PRef("v"), W("b")>>),
                                            SEntry(<<W("b"), PRef("w")>>) >>],
  nest  |-> [dir |-> "include", lines |-> << SInclude("plain", <<>>), E("ab") >>],
  nest2 |-> [dir |-> "include", lines |-> << E("b"), (SInclude("nest", <<>>) @@ [ind |-> "  "]) >>],
  blk   |-> [dir |-> "include", lines |-> << LStart("assemble", ""), E("a"), LConcat, E("b"), E("a"), LEnd >>],
  xdir  |-> [dir |-> "exclude", lines |-> << E("ba"), E("b") >>],
  flg   |-> [dir |-> "include", lines |-> << SFlags(<<"i">>), E("a") >>],
  \* the LAST entry of a file with a prefix ends in a blank: the blank belongs to the entry
  pfxsp |-> [dir |-> "include", lines |-> << SPrefix(<<W("a")>>), E("b"), E("ab ") >>],
  \* flags in an include file that has neither prefix nor suffix: rejected all the same
  flgonly |-> [dir |-> "include", lines |-> << E("b"), SFlags(<<"s">>) >>],
  \* word lists WITHOUT any ##! line: untidy (blank line, indentation) and without final newline (the harness
  \* writes files whose name starts with nonl without the last line break)
  untidy |-> [dir |-> "include", lines |-> << E("ab"), SBlank(""), (E("b") @@ [ind |-> "  "]) >>],
  nonl   |-> [dir |-> "include", lines |-> << E("a"), E("bb") >>]
]

FilesIncAll == FilesInc @@ ("v8.1" :> [dir |-> "include", lines |-> << E("ab"), E("b") >>])

FilesExc == [
  f1    |-> [dir |-> "include", lines |-> << E("aab"), E("ba"), SComment("##! c"), E("aab"), SBlank(""), E("bb"), E("a") >>],
  f2    |-> [dir |-> "include", lines |-> << SDefine("v", <<W("b")>>), SEntry(<<W("a"), PRef("v")>>), E("aab"), E("b") >>],
  x1    |-> [dir |-> "exclude", lines |-> << E("aab"), E("zz") >>],
  x2    |-> [dir |-> "exclude", lines |-> << E("bb"), E("a"), E("aab") >>],
  x3    |-> [dir |-> "exclude", lines |-> << >>],
  x4    |-> [dir |-> "exclude", lines |-> << E("ab"), E("ba"), E("bb"), E("a"), E("b"), E("aab") >>],
  xv    |-> [dir |-> "exclude", lines |-> << SEntry(<<W("a"), PRef("v")>>) >>],
  \* exclude files that define the same name differently: the one listed first decides
  xd1   |-> [dir |-> "exclude", lines |-> << SDefine("s", <<W("b")>>), SEntry(<<W("b"), PRef("s")>>) >>],
  xd2   |-> [dir |-> "exclude", lines |-> << SDefine("s", <<W("a")>>), SEntry(<<W("b"), PRef("s")>>) >>],
  \* an exclusion that ends in a blank is another text than the entry without it
  xsp   |-> [dir |-> "exclude", lines |-> << E("ba "), E("a") >>],
  \* F and an exclude file use a name that only the INCLUDING file defines: both sides stay unexpanded
  \* while the exclusion is carried out
  f4    |-> [dir |-> "include", lines |-> << SEntry(<<W("a"), PRef("w")>>), E("b"), E("ab") >>],
  xw    |-> [dir |-> "exclude", lines |-> << SEntry(<<W("a"), PRef("w")>>) >>],
  xc    |-> [dir |-> "exclude", lines |-> << SComment("##! nothing to exclude here"), SBlank(""), SDefine("u", <<W("b")>>) >>],
  \* a word list whose order shows in the output (no common prefixes), with a repeated entry
  f3    |-> [dir |-> "include", lines |-> << E("cu"), E("wg"), E("cu"), E("nm"), E("py") >>],
  \* include files whose parser output contains directive lines (block markers)
  fp    |-> [dir |-> "include", lines |-> << SPrefix(<<W("b")>>), E("ab"), E("a"), SSuffix(<<W("a")>>) >>],
  fblk  |-> [dir |-> "include", lines |-> << LStart("assemble", ""), E("ae"), LConcat, E("b"), LEnd, E("ba") >>]
]

FilesDef == [
  dinc  |-> [dir |-> "include", lines |-> << SEntry(<<W("b"), PRef("p")>>), SEntry(<<PRef("q")>>) >>],
  \* an include file with a definition of its own, under a name the including file may define as well
  ddef  |-> [dir |-> "include", lines |-> << SDefine("p", <<W("b")>>), SEntry(<<PRef("p"), W("a")>>) >>],
  \* ... and one whose PREFIX line uses the file's own definition
  dpfx  |-> [dir |-> "include", lines |-> << SDefine("p", <<W("b")>>), SPrefix(<<PRef("p")>>), E("a") >>]
]

Files == CASE Family = "inc" -> FilesIncAll [] Family = "exc" -> FilesExc [] Family = "def" -> FilesDef

FileLines == [f \in DOMAIN Files |-> Files[f].lines]

(***************************************************************************)
(* Vocabularies of main-program lines.                                     *)
(***************************************************************************)
IncOf(f)     == SInclude(f, <<>>)
Blocks == << LStart("assemble", ""), LStart("cmdline", "unix"), LEnd, LConcat >>

VocInc == << E("a"), E("b"), SEntry(<<PRef("v")>>), SEntry(<<PRef("w"), W("a")>>), SFlags(<<"i">>),
             SDefine("v", <<W("bb")>>), SDefine("w", <<ClsAB>>) >>
          \o << IncOf("plain"), (IncOf("plain") @@ [ext |-> TRUE]), IncOf("noisy"), IncOf("pfx"), IncOf("sfx"),
                IncOf("both"), IncOf("defs"), IncOf("nest"), IncOf("nest2"), IncOf("blk"), IncOf("xdir"),
                IncOf("flg"), IncOf("missing"), IncOf("v8.1"), IncOf("pfxsp"), IncOf("flgonly"), IncOf("untidy"), IncOf("nonl"),
                \* the same file once with a suffix replacement and once plain (in either order)
                SInclude("plain", << <<"a", "b">> >>), SInclude("nest", << <<"b", "\"\"">> >>) >>
          \o Blocks \o << LStore("x"), LLoad("x") >>

Pairs1 == << <<"b", "a">> >>
Pairs2 == << <<"b", "\"\"">> >>
Pairs3 == << <<"a", "b">>, <<"b", "ab">> >>          \* the replacement of the first ends in the key of the second
Pairs4 == << <<"ab", "b">>, <<"b", "a">> >>          \* one key is an ending of the other
Pairs5 == << <<"bb", "a">>, <<"zz", "b">>, <<"ab", "\"\"">> >>
Pairs7 == << <<"ab", "ab">>, <<"b", "a">> >>        \* an identity pair shields its entries from the later, shorter key
Pairs6 == << <<"b", "\"\"">>, <<"a", "b">> >>      \* what a deletion leaves over ends in the key of a later pair
\* (an entry that consists of nothing but a deleted ending is outside the model: the
\* statement does not say whether an empty entry or no entry results)

VocExc == << E("b"),
             SInclExc("f1", <<"x1">>, <<>>), SInclExc("f1", <<"x2">>, <<>>), SInclExc("f1", <<"x1", "x2">>, <<>>),
             SInclExc("f1", <<"x3">>, <<>>), SInclExc("f1", <<"x4">>, <<>>), SInclExc("f2", <<"xv">>, <<>>),
             SInclExc("f2", <<"x1", "x3">>, <<>>),
             SInclExc("f1", <<"x1">>, Pairs1), SInclExc("f1", <<"x2">>, Pairs3), SInclExc("f2", <<"x3">>, Pairs4),
             SInclude("f1", Pairs1), SInclude("f1", Pairs2), SInclude("f1", Pairs3), SInclude("f1", Pairs4),
             SInclExc("f1", <<"xd1", "xd2">>, <<>>), SInclExc("f1", <<"xd2", "xd1">>, <<>>), SInclExc("f3", <<"xd2", "x3", "xd1">>, <<>>),
             SInclude("f1", Pairs5), SInclude("f2", Pairs3), SInclude("f2", <<>>), SInclude("f1", Pairs6), SInclude("f1", Pairs7), SDefine("w", <<W("b")>>), SInclExc("f4", <<"xw">>, <<>>), SInclExc("f1", <<"xsp">>, <<>>),
             \* keys that are also the ending of a directive line: only entries may be rewritten
             \* an exclude file without entries listed BEFORE one with entries
             SInclExc("f1", <<"x3", "x2">>, <<>>), SInclExc("f3", <<"xc", "x1", "x3">>, <<>>), SInclExc("f2", <<"xc", "xv">>, <<>>),
             SInclExc("f3", <<"x3">>, <<>>), SInclExc("f3", <<"x1">>, << <<"y", "z">> >>),
             SInclude("fp", << <<">", "b">> >>), SInclude("fp", << <<"e", "a">>, <<"<", "b">> >>),
             SInclude("fblk", << <<"e", "b">>, <<">", "a">> >>), SInclExc("fblk", <<"x3">>, << <<"<", "a">>, <<"a", "b">> >>) >>
          \o << LStart("assemble", ""), LEnd, LConcat >>

VocDef == << SDefine("p", <<W("a")>>), SDefine("q", <<PRef("p"), Aplus>>), SDefine("r", <<PRef("q"), Bar, PRef("p")>>),
             SDefine("s", <<Brace>>), SDefine("p", <<W("bb")>>), SDefine("t", <<Dollar>>),
             SEntry(<<PRef("t")>>), SEntry(<<W("a"), PRef("t")>>),
             SEntry(<<PRef("p")>>), SEntry(<<W("b"), PRef("q")>>), SEntry(<<PRef("r")>>), SEntry(<<PRef("s"), PRef("p")>>),
             SEntry(<<PRef("u"), W("a")>>), E("b"),
             SPrefix(<<PRef("p")>>), SSuffix(<<PRef("s")>>), IncOf("dinc"),
             SPrefix(<<PRef("q")>>), IncOf("ddef"), IncOf("dpfx"),
             SDefine("_u", <<W("b")>>), SEntry(<<PRef("_u"), W("a")>>),   \* a name that starts with an underscore                              \* a NESTED definition used by a prefix line
             LStart("assemble", ""), LEnd, LConcat >>

Voc0 == CASE Family = "inc" -> VocInc [] Family = "exc" -> VocExc [] Family = "def" -> VocDef
Voc  == [i \in 1..Len(Voc0) |-> WithInd(Voc0[i])]

(***************************************************************************)
(* Growing a well-formed main program.                                     *)
(***************************************************************************)
TopKind == meta.kinds[Len(meta.kinds)]
WordFiles == {"plain", "noisy", "nest", "xdir", "f1", "f2", "f3", "v8.1", "untidy", "nonl", "f4"}

CanAdd(l) ==
    /\ Len(prog) < MaxLines
    /\ CASE l.k = "entry"  -> TRUE
         [] l.k = "start"  -> TopKind = "assemble" /\ Len(meta.kinds) <= MaxDepth
         [] l.k = "end"    -> Len(meta.kinds) > 1 /\ meta.fill[Len(meta.fill)] > 0
         [] l.k \in {"concat", "store"} -> TopKind = "assemble"
         [] l.k = "load"   -> TopKind = "assemble" /\ l.n \in meta.stored
         [] l.k \in {"include", "inclexc"} -> TopKind = "assemble" \/ l.f \in WordFiles
         [] l.k = "define" -> l.n \notin meta.defined
         [] l.k \in {"prefix", "suffix"} -> Len(meta.kinds) = 1 /\ meta.affix < 2
         [] OTHER -> TRUE
    \* in a cmdline block every entry is a command word: no references there
    /\ (TopKind = "cmdline" /\ l.k = "entry") => \A i \in 1..Len(l.ps) : l.ps[i].p = "t"

MetaAfter(l) ==
    CASE l.k = "start" -> [meta EXCEPT !.kinds = Append(@, l.p), !.fill = Append(@, 0)]
      [] l.k = "end"   -> [meta EXCEPT !.kinds = SubSeq(@, 1, Len(@) - 1),
                                       !.fill  = [i \in 1..(Len(@) - 1) |-> IF i = Len(@) - 1 THEN @[i] + 1 ELSE @[i]]]
      [] l.k \in {"entry", "include", "inclexc"} -> [meta EXCEPT !.fill[Len(meta.fill)] = @ + 1]
      [] l.k = "store" -> [meta EXCEPT !.stored = @ \cup {l.n}]
      [] l.k = "define" -> [meta EXCEPT !.defined = @ \cup {l.n}]
      [] l.k \in {"prefix", "suffix"} -> [meta EXCEPT !.affix = @ + 1]
      [] OTHER -> meta

Init == /\ prog = <<>>
        /\ meta = [kinds |-> <<"assemble">>, fill |-> <<0>>, stored |-> {}, defined |-> {}, affix |-> 0]

AddLine(i) == /\ CanAdd(Voc[i])
              /\ prog' = Append(prog, i)
              /\ meta' = MetaAfter(Voc[i])

Next == \E i \in 1..Len(Voc) : AddLine(i)
Spec == Init /\ [][Next]_vars

(***************************************************************************)
(* Expectations.                                                           *)
(***************************************************************************)
Complete == Len(meta.kinds) = 1 /\ Len(prog) >= 1

\* The names of the definition chain p <- q <- r are permuted, a different permutation from program to
\* program (chosen by the program's own lines): the statement is about reference GRAPHS, the byte
\* order of the names must not matter (a reference chain X -> Z -> Y occurs with all 6 orders of the names).
NamePerms == << [p |-> "p", q |-> "q", r |-> "r"], [p |-> "p", q |-> "r", r |-> "q"], [p |-> "q", q |-> "p", r |-> "r"],
               [p |-> "q", q |-> "r", r |-> "p"], [p |-> "r", q |-> "p", r |-> "q"], [p |-> "r", q |-> "q", r |-> "p"] >>
RECURSIVE ProgSum(_)
ProgSum(j) == IF j = 0 THEN 0 ELSE prog[j] * (j + 1) + ProgSum(j - 1)
NamePerm == IF Family = "def" THEN NamePerms[(ProgSum(Len(prog)) % 6) + 1] ELSE NamePerms[1]
Ren(n) == IF n \in DOMAIN NamePerm THEN NamePerm[n] ELSE n
RenPieces(ps) == [i \in 1..Len(ps) |-> IF ps[i].p = "ref" THEN PRef(Ren(ps[i].n)) ELSE ps[i]]
Rename(l) == IF Family # "def" THEN l
             ELSE IF l.k = "define" THEN [l EXCEPT !.n = Ren(@), !.ps = RenPieces(@)]
             ELSE IF l.k \in {"entry", "prefix", "suffix"} THEN [l EXCEPT !.ps = RenPieces(@)]
             ELSE l
Lines    == [j \in 1..Len(prog) |-> Rename(Voc[prog[j]])]
Res      == Compile(FileLines, Lines, Names)

Render(l) == (IF "ind" \in DOMAIN l THEN l.ind ELSE "")
             \o (IF l.k = "include" /\ "ext" \in DOMAIN l THEN "##!> include " \o l.f \o ".ra" \o PairsTxt(l.pairs)
                 ELSE LineTxt(l))

\* the same program with everything the parser does carried out by hand
Inlined == LET p == Parse(FileLines, Lines, <<>>, 4)
               fl == IF p.flags = {} THEN <<>> ELSE << SFlags(SetToSortSeq(p.flags, LAMBDA a, b : a = "i" /\ b = "s")) >>
           IN  fl \o [i \in 1..Len(p.pfx) |-> SPrefix(p.pfx[i])] \o [i \in 1..Len(p.sfx) |-> SSuffix(p.sfx[i])] \o p.dest

RECURSIVE Str(_)
Str(s) == IF s = <<>> THEN "" ELSE s[1] \o Str(Tail(s))

\* the design theorem again, now through the parser
Refines == (Theorem /\ Complete /\ Res.err = "") =>
               LangD(RFrag(Res.irt.f), Res.flags) = LangD(Res.rnode, Res.flags)

\* the order in which expandDefinitions ranges over its map does not matter
DefOrderFree ==
    (Theorem /\ Complete /\ Family = "def") =>
       LET p    == Parse(FileLines, Lines, <<>>, 4)
           raw  == [i \in 1..Len(Lines) |-> Lines[i]]
           dn   == DOMAIN p.defs
           ents == { i \in 1..Len(raw) : raw[i].k = "entry" }
       IN  \A s1 \in SetToSeqs(dn), s2 \in SetToSeqs(dn) :
             \A i \in ents :
                PiecesTxt(ExpandAlgo(raw[i].ps, p.defs, s1, s2)) = PiecesTxt(Resolve(raw[i].ps, p.defs, 8))

Tags == { Voc[prog[j]].k : j \in 1..Len(prog) }

Case == [lines  |-> [j \in 1..Len(prog) |-> Render(Lines[j])],
         flags  |-> Res.flags,
         expect |-> IF Res.err = "" THEN "ok" ELSE Res.err,
         lang   |-> IF Res.err = "" THEN { Str(s) : s \in LangD(Res.rnode, Res.flags) } ELSE {},
         same   |-> IF Res.err = "" THEN [i \in 1..Len(Inlined) |-> Render(Inlined[i])] ELSE <<>>,
         tags   |-> Tags]

ExportCase == (Export /\ Complete) => PrintT(ToJson(Case))

FileSet == [f \in { Files[g].dir \o "/" \o g \o ".ra" : g \in DOMAIN Files } |->
              LET g == CHOOSE g \in DOMAIN Files : Files[g].dir \o "/" \o g \o ".ra" = f
              IN  [i \in 1..Len(Files[g].lines) |-> Render(Files[g].lines[i])]]

ASSUME Export => PrintT(ToJson([poolinfo |-> [sigma |-> MCSigma, n |-> N, pool |-> <<>>], files |-> FileSet]))
=============================================================================
