SPECIFICATION Spec
CONSTANTS
  Sigma <- MCSigma
  N = 3
  LeafD <- MCLeafD
  Theorem = TRUE
  Deviations <- MCDev
  Cfg <- MCCfg
  MaxLines = 3
  MaxDepth = 1
  Export = FALSE
INVARIANTS Compiles Refines StackShape StashKnown ExportCase
CHECK_DEADLOCK FALSE
