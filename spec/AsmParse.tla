----------------------------- MODULE AsmParse -----------------------------
(***************************************************************************)
(* The regex-assembly PARSER (regex/parser/parser.go and                   *)
(* include_except_builder.go) as transition functions over source lines:   *)
(* comments and blank lines are dropped, definitions are collected and     *)
(* substituted after the whole file is read, include files are parsed      *)
(* recursively by a fresh parser and pasted, include-except removes the    *)
(* excluded entries, suffix-replacement pairs rewrite entry endings,       *)
(* flag / prefix / suffix lines are collected.                             *)
(*                                                                         *)
(* An entry is a sequence of PIECES: literal text (an RT) or a reference   *)
(* {{name}}.  Substituting a definition splices the value's pieces in,     *)
(* which is what strings.ReplaceAll does to the text.                      *)
(***************************************************************************)
EXTENDS AsmCore, SequencesExt

PT(rt)   == [p |-> "t", rt |-> rt]       \* literal text
PRef(n)  == [p |-> "ref", n |-> n]       \* {{n}}

\* text and parse of a piece sequence; an unresolved reference is the literal text {{n}}
RefRT(n)     == RT("{{" \o n \o "}}", Word(<<"{", "{">> \o Chars(n) \o <<"}", "}">>))
PieceRT(pc)  == IF pc.p = "t" THEN pc.rt ELSE RefRT(pc.n)
PiecesRT(ps) == RTCatAll([i \in 1..Len(ps) |-> PieceRT(ps[i])])
PiecesTxt(ps) == PiecesRT(ps).txt

(***************************************************************************)
(* Source lines.                                                           *)
(***************************************************************************)
SEntry(ps)          == [k |-> "entry", ps |-> ps]
SComment(t)         == [k |-> "comment", t |-> t]
SBlank(t)           == [k |-> "blank", t |-> t]
SDefine(n, ps)      == [k |-> "define", n |-> n, ps |-> ps]
SInclude(f, pairs)  == [k |-> "include", f |-> f, pairs |-> pairs]
SInclExc(f, xs, pairs) == [k |-> "inclexc", f |-> f, xs |-> xs, pairs |-> pairs]
SFlags(fl)          == [k |-> "flags", fl |-> fl]          \* fl: sequence of letters
SPrefix(ps)         == [k |-> "prefix", ps |-> ps]
SSuffix(ps)         == [k |-> "suffix", ps |-> ps]
\* start / end / concat / store / load lines are those of AsmCore

RECURSIVE JoinStr(_, _)
JoinStr(ss, sep) == IF ss = <<>> THEN "" ELSE IF Len(ss) = 1 THEN ss[1] ELSE ss[1] \o sep \o JoinStr(Tail(ss), sep)

PairsTxt(pairs) == IF pairs = <<>> THEN ""
                   ELSE " -- " \o JoinStr([i \in 1..Len(pairs) |-> pairs[i][1] \o " " \o pairs[i][2]], " ")

\* the canonical concrete text of a source line
LineTxt(l) ==
    CASE l.k = "entry"   -> PiecesTxt(l.ps)
      [] l.k = "comment" -> l.t
      [] l.k = "blank"   -> l.t
      [] l.k = "define"  -> "##!> define " \o l.n \o " " \o PiecesTxt(l.ps)
      [] l.k = "include" -> "##!> include " \o l.f \o PairsTxt(l.pairs)
      [] l.k = "inclexc" -> "##!> include-except " \o l.f \o " " \o JoinStr(l.xs, " ") \o PairsTxt(l.pairs)
      [] l.k = "flags"   -> "##!+ " \o JoinStr(l.fl, "")
      [] l.k = "prefix"  -> "##!^ " \o PiecesTxt(l.ps)
      [] l.k = "suffix"  -> "##!$ " \o PiecesTxt(l.ps)
      [] l.k = "start"   -> IF l.a = "" THEN "##!> " \o l.p ELSE "##!> " \o l.p \o " " \o l.a
      [] l.k = "end"     -> "##!<"
      [] l.k = "concat"  -> "##!=>"
      [] l.k = "store"   -> "##!=< " \o l.n
      [] l.k = "load"    -> "##!=> " \o l.n

(***************************************************************************)
(* Definitions: the intended meaning (pure substitution) ...               *)
(***************************************************************************)
RECURSIVE Resolve(_, _, _)
Resolve(ps, defs, fuel) ==          \* fuel bounds the depth (definitions are acyclic)
    IF ps = <<>> THEN <<>>
    ELSE LET h == Head(ps) IN
         IF h.p = "ref" /\ h.n \in DOMAIN defs /\ fuel > 0
         THEN Resolve(defs[h.n], defs, fuel - 1) \o Resolve(Tail(ps), defs, fuel)
         ELSE <<h>> \o Resolve(Tail(ps), defs, fuel)

(***************************************************************************)
(* ... and the algorithm of expandDefinitions, with the two iteration      *)
(* orders over the map made explicit (o1, o2: sequences of all names).     *)
(***************************************************************************)
RECURSIVE Subst(_, _, _)
Subst(ps, n, val) ==                \* strings.ReplaceAll(ps, "{{n}}", val)
    IF ps = <<>> THEN <<>>
    ELSE LET h == Head(ps) IN
         IF h.p = "ref" /\ h.n = n THEN val \o Subst(Tail(ps), n, val)
         ELSE <<h>> \o Subst(Tail(ps), n, val)

RECURSIVE Loop1(_, _)
Loop1(defs, o1) ==                  \* definitions inside definitions
    IF o1 = <<>> THEN defs
    ELSE LET n == Head(o1)
             val == defs[n]         \* the value the range statement yields now
         IN  Loop1([m \in DOMAIN defs |-> Subst(defs[m], n, val)], Tail(o1))

RECURSIVE Loop2(_, _, _)
Loop2(ps, defs, o2) ==
    IF o2 = <<>> THEN ps ELSE Loop2(Subst(ps, Head(o2), defs[Head(o2)]), defs, Tail(o2))

ExpandAlgo(ps, defs, o1, o2) == Loop2(ps, Loop1(defs, o1), o2)

(***************************************************************************)
(* Suffix replacement (replaceSuffixes): only entries, at most one rewrite *)
(* per entry, by the first pair (in written order) whose key the entry     *)
(* ends with.  Deviation "SuffixPairsChained": every pair is applied in    *)
(* turn, in the order given by `order' (the pinned code: map order).       *)
(***************************************************************************)
EndsWith(s, t)   == Len(s) >= Len(t) /\ SubSeq(s, Len(s) - Len(t) + 1, Len(s)) = t
CutEnd(s, t)     == SubSeq(s, 1, Len(s) - Len(t))
NewEnd(new)      == IF new = "\"\"" THEN "" ELSE new
WordPieces(txt)  == IF txt = "" THEN <<>> ELSE << PT(RT(txt, Word(Chars(txt)))) >>

RECURSIVE FirstMatch(_, _)
FirstMatch(txt, pairs) ==
    IF pairs = <<>> THEN txt
    ELSE IF EndsWith(txt, pairs[1][1]) THEN CutEnd(txt, pairs[1][1]) \o NewEnd(pairs[1][2])
    ELSE FirstMatch(txt, Tail(pairs))

RewriteEntry(l, pairs) ==
    IF l.k # "entry" \/ pairs = <<>> THEN l
    ELSE LET txt == PiecesTxt(l.ps)
             new == FirstMatch(txt, pairs)
         IN  IF new = txt THEN l ELSE [l EXCEPT !.ps = WordPieces(new)]

(***************************************************************************)
(* The parser.  files: file name -> sequence of source lines.               *)
(* Result: [dest, defs, flags, pfx, sfx, err].                             *)
(***************************************************************************)
PInit(defs0) == [dest |-> <<>>, defs |-> defs0, flags |-> {}, pfx |-> <<>>, sfx |-> <<>>, err |-> ""]

IsAsmKind(k) == k \in {"entry", "start", "end", "concat", "store", "load"}

ExpandLine(l, defs) ==
    IF l.k = "entry" THEN [l EXCEPT !.ps = Resolve(l.ps, defs, 8)] ELSE l

\* include-except: keep the lines of inc whose text occurs in no exclusion; a
\* text that occurs several times in inc survives once, at its last position
RemoveExcluded(inc, excl) ==
    LET txt(i) == LineTxt(inc[i])
        keep == { i \in 1..Len(inc) :
                    /\ \A j \in (i + 1)..Len(inc) : txt(j) # txt(i)
                    /\ \A e \in 1..Len(excl) : LineTxt(excl[e]) # txt(i) }
    IN  [i \in 1..Cardinality(keep) |-> inc[SetToSortSeq(keep, <)[i]]]

RECURSIVE Parse(_, _, _, _), ParseFile(_, _, _, _)

\* parseFile + mergePrefixesSuffixes: the lines an include contributes
ParseFile(files, f, defs0, fuel) ==
    IF f \notin DOMAIN files \/ fuel = 0 THEN [lines |-> <<>>, defs |-> defs0, err |-> "error:missing-include"]
    ELSE LET r == Parse(files, files[f], defs0, fuel - 1) IN
         IF r.err # "" THEN [lines |-> <<>>, defs |-> r.defs, err |-> r.err]
         ELSE IF r.flags # {} THEN [lines |-> <<>>, defs |-> r.defs, err |-> "error:flags-in-include"]
         ELSE IF r.pfx = <<>> /\ r.sfx = <<>> THEN [lines |-> r.dest, defs |-> r.defs, err |-> ""]
         ELSE LET wrap(ps) == << SEntry(ps), LConcat >>
                  RECURSIVE wrapAll(_)
                  wrapAll(pss) == IF pss = <<>> THEN <<>> ELSE wrap(Head(pss)) \o wrapAll(Tail(pss))
              IN  [lines |-> << LStart("assemble", "") >> \o wrapAll(r.pfx) \o r.dest
                             \o (IF r.sfx # <<>> THEN << LConcat >> ELSE <<>>) \o wrapAll(r.sfx) \o << LEnd >>,
                   defs |-> r.defs, err |-> ""]

Parse(files, lines, defs0, fuel) ==
    LET RECURSIVE go(_, _)
        go(ps, ls) ==
          IF ls = <<>> \/ ps.err # "" THEN ps ELSE
          LET l == Head(ls)
              nx == CASE IsAsmKind(l.k) -> [ps EXCEPT !.dest = Append(@, l)]
                      [] l.k \in {"comment", "blank"} -> ps
                      [] l.k = "define" ->
                            IF l.n \in DOMAIN ps.defs THEN ps      \* mergo.Merge keeps the first value
                            ELSE [ps EXCEPT !.defs = [m \in DOMAIN ps.defs \cup {l.n} |->
                                                        IF m = l.n THEN l.ps ELSE ps.defs[m]]]
                      [] l.k = "include" ->
                            LET r == ParseFile(files, l.f, <<>>, fuel) IN
                            IF r.err # "" THEN [ps EXCEPT !.err = r.err]
                            ELSE [ps EXCEPT !.dest = @ \o [i \in 1..Len(r.lines) |-> RewriteEntry(r.lines[i], l.pairs)]]
                      [] l.k = "inclexc" ->
                            LET r == ParseFile(files, l.f, <<>>, fuel)
                                \* the exclude files are read in the order written; each starts from the definitions
                                \* of F and of the exclude files before it (one map, the first definition of a name wins)
                                RECURSIVE excl(_, _)
                                excl(xs, d) == IF xs = <<>> THEN [lines |-> <<>>, err |-> ""]
                                               ELSE LET x == ParseFile(files, Head(xs), d, fuel)
                                                        t == excl(Tail(xs), x.defs)
                                                    IN  [lines |-> x.lines \o t.lines,
                                                         err |-> IF x.err # "" THEN x.err ELSE t.err]
                                ex == excl(l.xs, r.defs)
                            IN  IF r.err # "" THEN [ps EXCEPT !.err = r.err]
                                ELSE IF ex.err # "" THEN [ps EXCEPT !.err = ex.err]
                                ELSE LET kept == RemoveExcluded(r.lines, ex.lines)
                                     IN  [ps EXCEPT !.dest = @ \o [i \in 1..Len(kept) |-> RewriteEntry(kept[i], l.pairs)]]
                      [] l.k = "flags" ->
                            IF \A i \in 1..Len(l.fl) : l.fl[i] \in {"i", "s"}
                            THEN [ps EXCEPT !.flags = @ \cup { l.fl[i] : i \in 1..Len(l.fl) }]
                            ELSE [ps EXCEPT !.err = "error:unsupported-flag"]
                      [] l.k = "prefix" -> [ps EXCEPT !.pfx = Append(@, l.ps)]
                      [] l.k = "suffix" -> [ps EXCEPT !.sfx = Append(@, l.ps)]
          IN  go(nx, Tail(ls))
        r0 == go(PInit(defs0), lines)
    IN  \* now that the file was parsed, all definitions are replaced -- in the entries
        \* and (repaired defect) in the prefix and suffix lines of the same file
        IF r0.err # "" THEN r0
        ELSE [r0 EXCEPT !.dest = [i \in 1..Len(r0.dest) |-> ExpandLine(r0.dest[i], r0.defs)],
                        !.pfx  = [i \in 1..Len(r0.pfx) |->
                                    IF "AffixNotExpanded" \in Deviations THEN r0.pfx[i] ELSE Resolve(r0.pfx[i], r0.defs, 8)],
                        !.sfx  = [i \in 1..Len(r0.sfx) |->
                                    IF "AffixNotExpanded" \in Deviations THEN r0.sfx[i] ELSE Resolve(r0.sfx[i], r0.defs, 8)]]

(***************************************************************************)
(* From parser output to assembler lines and the whole compilation.        *)
(***************************************************************************)
ToAsmLine(l) == IF l.k = "entry" THEN LEntry(PiecesRT(l.ps)) ELSE l

Compile(files, lines, names) ==
    LET p == Parse(files, lines, <<>>, 4) IN
    IF p.err # "" THEN [err |-> p.err, irt |-> RTEmpty, rnode |-> REps, flags |-> {}]
    ELSE LET al  == [i \in 1..Len(p.dest) |-> ToAsmLine(p.dest[i])]
             pf  == [i \in 1..Len(p.pfx) |-> PiecesRT(p.pfx[i])]
             sf  == [i \in 1..Len(p.sfx) |-> PiecesRT(p.sfx[i])]
             ist == IRun(IInit(names), al)
             ires == IFinish(ist, pf, sf)
         IN  IF ires.err # "" THEN [err |-> ires.err, irt |-> RTEmpty, rnode |-> REps, flags |-> p.flags]
             ELSE [err |-> "", irt |-> ires.rt, flags |-> p.flags,
                   rnode |-> RFinish(RRun(RInit(names), al), pf, sf)]

=============================================================================
