---------------------------- MODULE MC_Classify ----------------------------
(***************************************************************************)
(* C03: for every line of a vocabulary built to be claimed by several      *)
(* patterns, and for every iteration order of the pattern map, parseLine   *)
(* gives the same kind.  `same' is a program the real tool must compile    *)
(* identically to <<"a", line, "b">> (in every run).                       *)
(***************************************************************************)
EXTENDS Classify, SequencesExt, Json
CONSTANT Export
VARIABLES ix, order
vars == <<ix, order>>

L(txt, kind, same) == [txt |-> txt, kind |-> kind, same |-> same]
Voc == <<
  L("##! plain comment", "comment", <<"a", "b">>),
  L("##! see ##!> include f for details", "comment", <<"a", "b">>),
  L("  ##! ##!> include-except f x", "comment", <<"a", "b">>),
  L("##! ##!> define v w", "comment", <<"a", "b">>),
  L("##!", "comment", <<"a", "b">>),
  L("##! ^ and $ are added by the rule itself", "comment", <<"a", "b">>),
  L("##! + words", "comment", <<"a", "b">>),
  L("##! $ x", "comment", <<"a", "b">>),
  L("##!+ U", "flags", <<"##!+ U", "a", "b">>),
  L("##!^ ##!> include f", "prefix", <<"##!^ ##!> include f", "a", "b">>),
  L("##!$ ##!+ i", "suffix", <<"a", "b", "##!$ ##!+ i">>),
  L("##!^ ##! not a comment", "prefix", <<"##!^ ##! not a comment", "a", "b">>),
  L("##!+ i", "flags", <<"##!+ i", "a", "b">>),
  L("##!+is", "flags", <<"##!+ s", "##!+ i", "a", "b">>),
  L("##!> include f", "include", <<"a", "inc1", "inc2", "b">>),
  L("\t##!>include  f", "include", <<"a", "inc1", "inc2", "b">>),
  L("##!> include f -- 1 x 2 y", "include", <<"a", "incx", "incy", "b">>),
  L("##!> include-except f x", "include-except", <<"a", "inc2", "b">>),
  L("##!> include-except f x -- 2 z", "include-except", <<"a", "incz", "b">>),
  L("##!> define v w", "definition", <<"a", "b">>),
  L("##!> define include f", "definition", <<"a", "b">>),
  L("entry ##!> include f", "regular", <<"a", "entry ##!> include f", "b">>),
  L("x##!+ i", "regular", <<"a", "x##!+ i", "b">>),
  L("##!=> ", "regular", <<"a", "##!=>", "b">>),
  L("##!=< x", "regular", <<"a", "##!=< x", "b">>),
  L("", "empty", <<"a", "b">>),
  L("  \t ", "empty", <<"a", "b">>)
>>

Init == ix \in 1..Len(Voc) /\ order \in SetToSeqs(Patterns)
Next == UNCHANGED vars
Spec == Init /\ [][Next]_vars

\* at most one pattern claims a line, hence the order cannot matter, and the kind is the expected one
Unambiguous == /\ Cardinality(Claimants(Voc[ix].txt)) <= 1
               /\ Kind(Voc[ix].txt, order) = Voc[ix].kind

ExportAll == Export => PrintT(ToJson([lines |-> Voc]))
ASSUME ExportAll
=============================================================================
