------------------------------ MODULE Regex ------------------------------
(***************************************************************************)
(* Regular expressions as crs-toolchain handles them: as TEXT that is      *)
(* concatenated, wrapped in "(?:" ")" and joined with "|", and whose       *)
(* meaning is the set of subject strings it fully matches under RE2        *)
(* semantics.                                                              *)
(*                                                                         *)
(* TLC cannot index into strings, so a regex text is modelled by its       *)
(* FRAGMENT normal form                                                    *)
(*                                                                         *)
(*     fragment    == << alternative_1, ..., alternative_n >>   (n >= 1)   *)
(*     alternative == << atom_1, ..., atom_m >>                 (m >= 0)   *)
(*                                                                         *)
(* which is exactly the information a regex parser recovers from the text  *)
(* at its top level: the text "a|bc" is << <<a>>, <<b,c>> >>.  The two     *)
(* textual operations the toolchain performs have exact counterparts:      *)
(*                                                                         *)
(*     TCat(f, g)   the text of f followed by the text of g                *)
(*                  (glues the LAST alternative of f to the FIRST of g,    *)
(*                  which is what "a|b" + "c" = "a|bc" does)               *)
(*     TGroup(f)    "(?:" + text of f + ")"                                *)
(*     TJoin(fs)    the texts joined with "|" (rassemble.Join's language)  *)
(*                                                                         *)
(* A group that the code forgets therefore has an exact counterpart in     *)
(* the specification.                                                      *)
(***************************************************************************)
EXTENDS Naturals, Sequences, FiniteSets

CONSTANTS Sigma,       \* comparison alphabet: a set of one-character strings
          N,           \* maximum length of a subject string
          LeafD(_, _)  \* LeafD(i, fl): denotation of vocabulary line i as an entry under
                       \* flags fl (a table the MC module computes once; see D below)

(***************************************************************************)
(* Subject strings: all sequences over Sigma of length 0..N.               *)
(***************************************************************************)
Universe == UNION { [1..n -> Sigma] : n \in 0..N }

(***************************************************************************)
(* Case folding for the `i' flag.  Only the letters that can occur in      *)
(* Sigma are listed.                                                       *)
(***************************************************************************)
Fold(c) == CASE c = "A" -> "a" [] c = "B" -> "b" [] c = "C" -> "c" [] OTHER -> c

(***************************************************************************)
(* Atoms.                                                                  *)
(***************************************************************************)
Lit(c)    == [t |-> "lit", c |-> c]
Cls(S)    == [t |-> "cls", s |-> S]              \* a class, as the subset of Sigma it contains
NCls(S)   == [t |-> "ncls", s |-> S]             \* negated class [^...]: under flag i the complement of the FOLDED class
Dot       == [t |-> "dot"]                       \* any character but "\n" (any at all under flag s)
Bol       == [t |-> "bol"]                       \* ^  (no `m' flag: beginning of text only)
Eol       == [t |-> "eol"]                       \* $  (no `m' flag: end of text only)
Grp(f)    == [t |-> "grp", f |-> f]              \* (?: f )
Q(q, x)   == [t |-> "q", q |-> q, x |-> x]       \* x*  x+  x?   q \in {"star","plus","opt"}

(***************************************************************************)
(* Text-level operations on fragments.                                     *)
(***************************************************************************)
EmptyTxt     == << <<>> >>                         \* the empty text ""
One(atom)    == << <<atom>> >>
Word(cs)     == << [i \in 1..Len(cs) |-> Lit(cs[i])] >>   \* a literal word
TCat(f, g)   == SubSeq(f, 1, Len(f) - 1) \o << f[Len(f)] \o g[1] >> \o Tail(g)
TGroup(f)    == << << Grp(f) >> >>
TAlt(f, g)   == f \o g                             \* text f + "|" + text g

RECURSIVE TCatAll(_)
TCatAll(fs)  == IF fs = <<>> THEN EmptyTxt ELSE TCat(Head(fs), TCatAll(Tail(fs)))

RECURSIVE TJoin(_)
TJoin(fs)    == IF Len(fs) = 1 THEN fs[1] ELSE TAlt(Head(fs), TJoin(Tail(fs)))

HasTopAlt(f) == Len(f) > 1

(***************************************************************************)
(* Reference-level nodes (used by the plain reading, never by the          *)
(* implementation-shaped model): structure instead of text.                *)
(***************************************************************************)
RAlt(xs)  == [t |-> "ralt", xs |-> xs]   \* alternation of nodes
RCat(xs)  == [t |-> "rcat", xs |-> xs]   \* concatenation of nodes
RFrag(f)  == [t |-> "rfrag", f |-> f]    \* the regex written as text f, as one unit
REps      == RCat(<<>>)

(***************************************************************************)
(* Matching.  Ends(x, s, P, fl) is the set of positions at which a match   *)
(* of node x that starts at some position in P can end (positions are      *)
(* 0..Len(s); position i means "i characters consumed").  fl is the set    *)
(* of global flags, a subset of {"i","s"}.                                 *)
(***************************************************************************)
InCls(S, ch, fl) == IF "i" \in fl THEN \E d \in S : Fold(d) = Fold(ch) ELSE ch \in S
CharOK(x, ch, fl) ==
    CASE x.t = "lit" -> IF "i" \in fl THEN Fold(ch) = Fold(x.c) ELSE ch = x.c
      [] x.t = "cls"  -> InCls(x.s, ch, fl)
      [] x.t = "ncls" -> ~InCls(x.s, ch, fl)
      [] x.t = "dot" -> ("s" \in fl) \/ ch # "\n"

RECURSIVE Ends(_, _, _, _), SeqEnds(_, _, _, _, _), StarEnds(_, _, _, _)

SeqEnds(xs, k, s, P, fl) ==
    IF k > Len(xs) \/ P = {} THEN P
    ELSE SeqEnds(xs, k + 1, s, Ends(xs[k], s, P, fl), fl)

StarEnds(x, s, P, fl) ==
    LET P2 == P \cup Ends(x, s, P, fl)
    IN  IF P2 = P THEN P ELSE StarEnds(x, s, P2, fl)

Ends(x, s, P, fl) ==
    IF P = {} THEN {} ELSE
    CASE x.t \in {"lit", "cls", "ncls", "dot"} ->
             { i + 1 : i \in { j \in P : j < Len(s) /\ CharOK(x, s[j + 1], fl) } }
      [] x.t = "bol"   -> P \cap {0}
      [] x.t = "eol"   -> P \cap {Len(s)}
      [] x.t = "grp"   -> UNION { SeqEnds(x.f[k], 1, s, P, fl) : k \in 1..Len(x.f) }
      [] x.t = "q"     -> (CASE x.q = "opt"  -> P \cup Ends(x.x, s, P, fl)
                             [] x.q = "star" -> StarEnds(x.x, s, P, fl)
                             [] x.q = "plus" -> StarEnds(x.x, s, Ends(x.x, s, P, fl), fl))
      [] x.t = "rfrag" -> UNION { SeqEnds(x.f[k], 1, s, P, fl) : k \in 1..Len(x.f) }
      [] x.t = "ralt"  -> UNION { Ends(x.xs[k], s, P, fl) : k \in 1..Len(x.xs) }
      [] x.t = "rcat"  -> SeqEnds(x.xs, 1, s, P, fl)

(***************************************************************************)
(* The language of a node / of a text, as a subset of Universe.            *)
(***************************************************************************)
Lang(x, fl)  == { s \in Universe : Len(s) \in Ends(x, s, {0}, fl) }
LangF(f, fl) == Lang(RFrag(f), fl)

(***************************************************************************)
(* A second, compositional definition of the same languages (set algebra). *)
(* The denotation of a node is a set of triples <<s, b, e>>: the string    *)
(* consumed, "the match must start at the beginning of the text" and "the  *)
(* match must end at the end of the text" (anchors without the `m' flag).  *)
(* It is much faster in TLC than matching every subject string, and the    *)
(* two definitions are checked against each other (MC_Regex).              *)
(***************************************************************************)
DEps == { << <<>>, FALSE, FALSE >> }

DCat(A, B) ==
    { << p[1][1] \o p[2][1], p[1][2] \/ p[2][2], p[1][3] \/ p[2][3] >> :
        p \in { q \in A \X B : /\ Len(q[1][1]) + Len(q[2][1]) <= N
                               /\ (q[1][3] => q[2][1] = <<>>)
                               /\ (q[2][2] => q[1][1] = <<>>) } }

RECURSIVE DStarFix(_, _)
DStarFix(A, X) == LET X2 == X \cup DCat(A, X) IN IF X2 = X THEN X ELSE DStarFix(A, X2)

CharsOf(x, fl) ==
    CASE x.t = "lit" -> { ch \in Sigma : IF "i" \in fl THEN Fold(ch) = Fold(x.c) ELSE ch = x.c }
      [] x.t = "cls"  -> { ch \in Sigma : InCls(x.s, ch, fl) }
      [] x.t = "ncls" -> { ch \in Sigma : ~InCls(x.s, ch, fl) }
      [] x.t = "dot" -> { ch \in Sigma : ("s" \in fl) \/ ch # "\n" }

RECURSIVE D(_, _), DSeq(_, _, _)
DSeq(xs, k, fl) == IF k > Len(xs) THEN DEps ELSE DCat(D(xs[k], fl), DSeq(xs, k + 1, fl))

D(x, fl) ==
    CASE x.t \in {"lit", "cls", "ncls", "dot"} -> IF N >= 1 THEN { << <<ch>>, FALSE, FALSE >> : ch \in CharsOf(x, fl) } ELSE {}
      [] x.t = "bol"   -> { << <<>>, TRUE, FALSE >> }
      [] x.t = "eol"   -> { << <<>>, FALSE, TRUE >> }
      [] x.t \in {"grp", "rfrag"} -> UNION { DSeq(x.f[k], 1, fl) : k \in 1..Len(x.f) }
      [] x.t = "q"     -> (CASE x.q = "opt"  -> DEps \cup D(x.x, fl)
                             [] x.q = "star" -> DStarFix(D(x.x, fl), DEps)
                             [] x.q = "plus" -> LET A == D(x.x, fl) IN DCat(A, DStarFix(A, DEps)))
      [] x.t = "ralt"  -> UNION { D(x.xs[k], fl) : k \in 1..Len(x.xs) }
      [] x.t = "rcat"  -> DSeq(x.xs, 1, fl)
      [] x.t = "rlang" -> x.d                    \* a node whose denotation is already known
      [] x.t = "rleaf" -> LeafD(x.i, fl)         \* vocabulary line i, looked up in the table

RLang(d)     == [t |-> "rlang", d |-> d]
RLeaf(i)     == [t |-> "rleaf", i |-> i]
LangD(x, fl) == { t[1] : t \in D(x, fl) }

=============================================================================
